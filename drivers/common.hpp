// Driver translation units exist only to force template instantiation of the
// library's public API with every input/output/value kind. They are compiled
// (-fsyntax-only, by ajx) and never run. The analyses only look at
// declarations whose source file is under /repo/src.
#pragma once
#include <ArduinoJson.h>
#include <cstdint>
#include <istream>
#include <ostream>
#include <sstream>
#include <string>
#if __cplusplus >= 201703L
#  include <string_view>
#endif

struct DrvReader {
  int read();
  size_t readBytes(char* buffer, size_t length);
};
struct DrvWriter {
  size_t write(uint8_t c);
  size_t write(const uint8_t* s, size_t n);
};

using namespace ArduinoJson;
