#include "common.hpp"

typedef signed char t_sc;
typedef unsigned char t_uc;
typedef unsigned short t_us;
typedef unsigned int t_ui;
typedef unsigned long t_ul;
typedef long long t_ll;
typedef unsigned long long t_ull;
#define FOR_EACH_INT(X)                                              \
  X(t_sc) X(t_uc) X(short) X(t_us) X(int) X(t_ui) X(long) \
  X(t_ul) X(t_ll) X(t_ull)
#define FOR_EACH_NUM(X) FOR_EACH_INT(X) X(float) X(double) X(bool)

enum DrvEnum { DRV_A, DRV_B };

template <typename V>
void scalars_get(V&& v) {
  unsigned long long sink = 0;
#define X(T)                \
  sink += (unsigned long long)v.template as<T>(); \
  sink += v.template is<T>();
  FOR_EACH_NUM(X)
#undef X
  sink += v.template as<DrvEnum>();
  sink += v.template is<DrvEnum>();
  const char* s = v.template as<const char*>();
  JsonString js = v.template as<JsonString>();
  std::string ss = v.template as<std::string>();
  sink += v.template is<const char*>() + v.template is<JsonString>() +
          v.template is<std::string>();
#if __cplusplus >= 201703L
  std::string_view sv = v.template as<std::string_view>();
  sink += v.template is<std::string_view>() + sv.size();
#endif
  JsonArrayConst ac = v.template as<JsonArrayConst>();
  JsonObjectConst oc = v.template as<JsonObjectConst>();
  JsonVariantConst vc = v.template as<JsonVariantConst>();
  sink += v.template is<JsonArrayConst>() + v.template is<JsonObjectConst>() +
          v.template is<JsonVariantConst>();
  sink += v.template is<std::nullptr_t>();
  sink += v.isNull() + v.size() + v.nesting();
  sink += ac.size() + oc.size() + vc.size() + ac.nesting() + oc.nesting();
  sink += ac.isNull() + oc.isNull();
  for (JsonVariantConst e : ac) sink += e.size();
  for (JsonPairConst kv : oc) sink += kv.value().size() + kv.key().size();
  sink += ac[0].size() + oc["k"].size() + oc[std::string("k")].size();
  sink += vc[0].size() + vc["k"].size() + vc[std::string("k")].size();
  sink += vc[vc].size() + oc[vc].size() + ac[vc].size();
  sink += (s != nullptr) + js.size() + ss.size();
  (void)sink;
}

template <typename V>
void variant_only(V&& v) {
  unsigned long long sink = 0;
  std::string ss;
  sink += v.isUnbound();
  // implicit conversions and operator|
  int i = v;
  double d = v;
  const char* s2 = v;
  sink += (v | 5) + (unsigned long long)(v | 1.5) + (v | true);
  s2 = v | "default";
  ss = v | std::string("d");
  sink += (unsigned long long)i + (unsigned long long)d + (s2 != nullptr);
  (void)sink;
}

template <typename V>
void scalars_cmp(V&& v) {
  bool r = false;
#define X(T)                                                             \
  {                                                                      \
    T x = T();                                                           \
    r ^= (v == x) ^ (v != x) ^ (v < x) ^ (v <= x) ^ (v > x) ^ (v >= x);  \
    r ^= (x == v) ^ (x != v) ^ (x < v) ^ (x <= v) ^ (x > v) ^ (x >= v);  \
  }
  FOR_EACH_NUM(X)
#undef X
  {
    const char* x = "a";
    r ^= (v == x) ^ (v != x) ^ (v < x) ^ (v <= x) ^ (v > x) ^ (v >= x);
    r ^= (x == v) ^ (x != v) ^ (x < v) ^ (x <= v) ^ (x > v) ^ (x >= v);
  }
  {
    char buf[4] = "a";
    char* x = buf;
    r ^= (v == x) ^ (v != x) ^ (v < x) ^ (v <= x) ^ (v > x) ^ (v >= x);
    r ^= (x == v) ^ (x != v) ^ (x < v) ^ (x <= v) ^ (x > v) ^ (x >= v);
  }
  {
    std::string x("a");
    r ^= (v == x) ^ (v != x) ^ (v < x) ^ (v <= x) ^ (v > x) ^ (v >= x);
    r ^= (x == v) ^ (x != v) ^ (x < v) ^ (x <= v) ^ (x > v) ^ (x >= v);
  }
  {
    JsonString x("a");
    r ^= (v == x) ^ (v != x) ^ (v < x) ^ (v <= x) ^ (v > x) ^ (v >= x);
    r ^= (x == v) ^ (x != v) ^ (x < v) ^ (x <= v) ^ (x > v) ^ (x >= v);
  }
#if __cplusplus >= 201703L
  {
    std::string_view x("a");
    r ^= (v == x) ^ (v != x) ^ (v < x) ^ (v <= x) ^ (v > x) ^ (v >= x);
    r ^= (x == v) ^ (x != v) ^ (x < v) ^ (x <= v) ^ (x > v) ^ (x >= v);
  }
#endif
  r ^= (v == nullptr) ^ (v != nullptr) ^ (nullptr == v) ^ (nullptr != v);
  r ^= (v == serialized("1")) ^ (v != serialized("1"));
  r ^= (v == serialized(std::string("1")));
  JsonDocument other;
  JsonVariant ov = other.to<JsonVariant>();
  JsonVariantConst oc = ov;
  r ^= (v == ov) ^ (v != ov) ^ (v < ov) ^ (v <= ov) ^ (v > ov) ^ (v >= ov);
  r ^= (v == oc) ^ (v != oc) ^ (v < oc) ^ (v <= oc) ^ (v > oc) ^ (v >= oc);
  r ^= (ov == v) ^ (oc == v) ^ (oc < v) ^ (oc > v);
  r ^= (v == other["k"]) ^ (v == other[0]) ^ (other["k"] == v) ^
       (other[0] < v);
  r ^= (v == other.as<JsonArray>()) ^ (v == other.as<JsonObject>());
  r ^= (v == other.as<JsonArrayConst>()) ^ (v == other.as<JsonObjectConst>());
  r ^= (v == v);
  (void)r;
}

template <typename V>
void scalars_set(V&& v) {
  bool ok = true;
#define X(T)         \
  {                  \
    T x = T();       \
    ok &= v.set(x);  \
    ok &= v.add(x);  \
  }
  FOR_EACH_NUM(X)
#undef X
  ok &= v.set(DRV_B);
  const char* cc = "lit";
  char buf[8] = "buf";
  char* mc = buf;
  const unsigned char* cuc = reinterpret_cast<const unsigned char*>(buf);
  std::string ss("s");
  JsonString jl("linked", JsonString::Linked);
  JsonString jc("copied", JsonString::Copied);
  JsonString jn("sized", 3);
  ok &= v.set(cc) & v.set(mc) & v.set(buf) & v.set(cuc) & v.set(ss) &
        v.set(jl) & v.set(jc) & v.set(jn) & v.set("literal");
  ok &= v.add(cc) & v.add(mc) & v.add(buf) & v.add(ss) & v.add(jl) &
        v.add("literal");
#if __cplusplus >= 201703L
  std::string_view sv("sv");
  ok &= v.set(sv) & v.add(sv);
#endif
  ok &= v.set(nullptr);
  ok &= v.set(serialized("1")) & v.set(serialized(ss)) &
        v.set(serialized(mc)) & v.set(serialized(cc, 1));
  ok &= v.add(serialized("1"));
  JsonDocument other;
  JsonVariant ov = other.to<JsonVariant>();
  JsonVariantConst ovc = ov;
  ok &= v.set(ov) & v.set(ovc) & v.set(other) & v.set(other["k"]) &
        v.set(other[0]) & v.set(other.as<JsonArray>()) &
        v.set(other.as<JsonObject>()) & v.set(other.as<JsonArrayConst>()) &
        v.set(other.as<JsonObjectConst>());
  ok &= v.add(ov) & v.add(ovc) & v.add(other["k"]) & v.add(other[0]) &
        v.add(other.as<JsonArray>()) & v.add(other.as<JsonObject>());
  (void)ok;
}

template <typename V>
void proxy_assign(V&& v) {
#define X(T)   \
  {            \
    T x = T(); \
    v = x;     \
  }
  FOR_EACH_NUM(X)
#undef X
  const char* cc = "lit";
  char buf[8] = "buf";
  char* mc = buf;
  std::string ss("s");
  JsonString jl("linked", JsonString::Linked);
  JsonDocument other;
  JsonVariant ov = other.to<JsonVariant>();
  JsonVariantConst ovc = ov;
  v = cc;
  v = mc;
  v = ss;
  v = jl;
  v = "literal";
  v = nullptr;
  v = serialized("raw");
  v = ov;
  v = ovc;
  v = other["k"];
  v = other[0];
  v = other.as<JsonArray>();
  v = other.as<JsonObjectConst>();
  v = DRV_B;
#if __cplusplus >= 201703L
  std::string_view sv("sv");
  v = sv;
#endif
}

template <typename V>
void structure(V&& v) {
  JsonArray a = v.template to<JsonArray>();
  JsonObject o = v.template to<JsonObject>();
  JsonVariant w = v.template to<JsonVariant>();
  a = v.template as<JsonArray>();
  o = v.template as<JsonObject>();
  w = v.template as<JsonVariant>();
  bool b = v.template is<JsonArray>() | v.template is<JsonObject>() |
           v.template is<JsonVariant>();
  a = v.template add<JsonArray>();
  o = v.template add<JsonObject>();
  w = v.template add<JsonVariant>();
  std::string sk("k");
  char buf[4] = "k";
  char* mk = buf;
  JsonString jk("k");
  v["k"] = 1;
  v[sk] = 2;
  v[mk] = 3;
  v[jk] = 4;
  v[0] = 5;
  (void)v[w].size();
  v["a"]["b"][0]["c"] = 7;
  v[0][1][2] = 8;
  v["a"][0] = v["b"][1];
  v["k"].template to<JsonArray>();
  v[0].template to<JsonObject>();
  v["k"].template add<JsonObject>();
  v[0].template add<JsonArray>();
  v.remove(0);
  v.remove("k");
  v.remove(sk);
  v.remove(mk);
  v.remove(jk);
  v.remove(w);
  v["k"].remove(0);
  v[0].remove("k");
  v.clear();
  v["k"].clear();
  v[0].clear();
  b |= v["k"].template is<int>() | v[0].template is<const char*>();
  b |= v["k"].isNull() | v[0].isNull();
#if __cplusplus >= 201703L
  std::string_view svk("k");
  v[svk] = 9;
  v.remove(svk);
#endif
  (void)b;
}

void arrays_objects(JsonDocument& doc) {
  JsonArray a = doc.to<JsonArray>();
  JsonObject o = doc.to<JsonObject>();
  JsonDocument other;
  JsonArray a2 = other.to<JsonArray>();
  JsonObject o2 = other.to<JsonObject>();
  JsonArrayConst ac = a2;
  JsonObjectConst oc = o2;
  bool b = a.set(a2) & a.set(ac) & o.set(o2) & o.set(oc);
  a.add(1);
  a.add("x");
  a.add<JsonArray>().add(1);
  a.add<JsonObject>()["k"] = 1;
  a.add<JsonVariant>().set(1);
  a[0] = 1;
  a[a[0]] = 1;
  JsonVariant e = a[0];
  a.remove(0);
  a.remove(a.begin());
  a.remove(e);
  a.clear();
  for (JsonVariant x : a) x.set(1);
  for (JsonVariantConst x : ac) b ^= x.isNull();
  JsonArray::iterator it = a.begin();
  ++it;
  b ^= it != a.end();
  b ^= it == a.end();
  b ^= (a == a2) ^ (ac == ac) ^ (a == ac) ^ (a != a2);
  b ^= a.isNull() ^ (bool)a ^ (a.size() > 0) ^ (a.nesting() > 0);
  JsonVariant av = a;
  JsonVariantConst avc = a;
  avc = ac;

  std::string sk("k");
  char buf[4] = "k";
  char* mk = buf;
  JsonString jk("k");
  o["k"] = 1;
  o[sk] = 1;
  o[mk] = 1;
  o[jk] = 1;
  o[e] = 1;
  o["k"]["j"] = o2["k"];
  JsonVariant m = o["k"];
  o.remove("k");
  o.remove(sk);
  o.remove(mk);
  o.remove(jk);
  o.remove(e);
  o.remove(o.begin());
  o.clear();
  for (JsonPair kv : o) {
    kv.value().set(kv.key());
    b ^= kv.key() == "x";
  }
  for (JsonPairConst kv : oc) b ^= kv.value().isNull() ^ (kv.key() == "x");
  JsonObject::iterator oit = o.begin();
  ++oit;
  b ^= oit != o.end();
  b ^= (o == o2) ^ (oc == oc) ^ (o == oc) ^ (o != o2);
  b ^= o.isNull() ^ (bool)o ^ (o.size() > 0) ^ (o.nesting() > 0);
  b ^= oc["k"].isNull() ^ oc[sk].isNull() ^ oc[mk].isNull() ^
       oc[jk].isNull() ^ oc[e].isNull();
  JsonVariant ov = o;
  JsonVariantConst ovc = o;
  ovc = oc;
  JsonArray na = o["arr"].to<JsonArray>();
  JsonObject no = o["obj"].to<JsonObject>();
  (void)na;
  (void)no;
  (void)b;
  (void)m;
  (void)av;
  (void)ov;
}

void documents() {
  JsonDocument d1;
  JsonDocument d2(d1);
  JsonDocument d3(static_cast<JsonDocument&&>(d1));
  JsonDocument d4(static_cast<Allocator*>(nullptr));
  d2 = d3;
  d3 = static_cast<JsonDocument&&>(d2);
  swap(d2, d3);
  JsonArray a = d2.to<JsonArray>();
  JsonObject o = d2.to<JsonObject>();
  JsonVariant v = d2.to<JsonVariant>();
  JsonDocument d5(a), d6(o), d7(v);
  JsonArrayConst ac = a;
  JsonObjectConst oc = o;
  JsonVariantConst vc = v;
  JsonDocument d8(ac), d9(oc), d10(vc);
  d5 = a;
  d5 = o;
  d5 = v;
  d5 = vc;
  d5 = d2["k"];
  d5 = d2[0];
  d5.shrinkToFit();
  d5.clear();
}

void copy_arrays(JsonDocument& doc) {
  int i1[3] = {1, 2, 3};
  int i2[2][3] = {{1, 2, 3}, {4, 5, 6}};
  double f1[3] = {1, 2, 3};
  const char* s1[2] = {"a", "b"};
  char str[8];
  JsonArray a = doc.to<JsonArray>();
  bool ok = copyArray(i1, a) & copyArray(i2, a) & copyArray(f1, a) &
            copyArray(s1, a) & copyArray(i1, 2, a) & copyArray(i1, doc) &
            copyArray(i2, doc) & copyArray(i1, 2, doc) &
            copyArray(i1, doc["k"]) & copyArray(i1, doc[0]) &
            copyArray(i1, doc.to<JsonVariant>());
  JsonArrayConst ac = a;
  size_t n = copyArray(ac, i1) + copyArray(ac, i2) + copyArray(ac, f1) +
             copyArray(ac, i1, 2) + copyArray(a, i1) + copyArray(doc, i1) +
             copyArray(doc, i2) + copyArray(doc["k"], i1) +
             copyArray(doc[0], i2) + copyArray(doc.as<JsonVariantConst>(), i1);
  char strs[2][8];
  n += copyArray(ac, strs);
  n += copyArray(doc.as<JsonVariantConst>(), str);
  unsigned char u1[4];
  long long l1[4];
  n += copyArray(ac, u1) + copyArray(ac, l1);
  (void)ok;
  (void)n;
}

void drive_api() {
  JsonDocument doc;
  const JsonDocument& cdoc = doc;
  JsonVariant v = doc.to<JsonVariant>();
  JsonVariantConst vc = v;

  scalars_get(v);
  scalars_get(vc);
  scalars_get(doc);
  scalars_get(cdoc);
  scalars_get(doc["k"]);
  scalars_get(doc[0]);
  scalars_get(doc["a"][0]);
  scalars_get(doc[0]["a"]);
  scalars_get(cdoc["k"]);
  scalars_get(cdoc[0]);

  variant_only(v);
  variant_only(vc);
  variant_only(doc["k"]);
  variant_only(doc[0]);
  variant_only(cdoc["k"]);

  scalars_cmp(v);
  scalars_cmp(vc);
  scalars_cmp(doc["k"]);
  scalars_cmp(doc[0]);
  scalars_cmp(cdoc["k"]);

  scalars_set(v);
  scalars_set(doc["k"]);
  scalars_set(doc[0]);
  scalars_set(doc["a"][0]);
  scalars_set(doc[0]["a"]);

  proxy_assign(doc["k"]);
  proxy_assign(doc[0]);
  proxy_assign(doc["a"][0]);
  proxy_assign(doc[0]["a"]);

  structure(v);
  structure(doc);
  structure(doc["k"]);
  structure(doc[0]);
  structure(doc["a"][0]);
  structure(doc[0]["a"]);

  // JsonDocument-only forms of set/add/operators
  bool ok = doc.set(1) & doc.set("s") & doc.set(std::string("s")) &
            doc.set(1.5) & doc.set(true) & doc.set(vc) & doc.set(cdoc) &
            doc.set(serialized("1")) & doc.set(nullptr) &
            doc.set(1ULL) & doc.set(-1LL) & doc.set(1.5f);
  ok &= doc.add(1) & doc.add("s") & doc.add(std::string("s")) & doc.add(v);
  ok ^= (doc == cdoc) ^ (doc != cdoc) ^ (doc == v) ^ (v == doc) ^
        (doc < vc) ^ (doc == 1) ^ (doc == "s");
  ok ^= doc.overflowed() ^ doc.isNull() ^ (doc.size() > 0) ^
        (doc.nesting() > 0);
  (void)ok;

  arrays_objects(doc);
  documents();
  copy_arrays(doc);

  // JsonString
  JsonString a("a"), b("b", 1), c("c", JsonString::Copied);
  bool r = (a == b) ^ (a != b) ^ a.isNull() ^ a.isLinked() ^ (bool)a;
  r ^= (a.c_str() != nullptr) ^ (a.size() > 0);
  std::ostringstream os;
  os << a;
  (void)r;
  (void)c;
}
