// Arduino flavour of the API: String, Stream, Print, flash strings.
// Compiled with -I/repo/extras/tests/Helpers (the repo's own Arduino stubs)
// and ARDUINOJSON_ENABLE_PROGMEM/ARDUINO_STRING/ARDUINO_STREAM/ARDUINO_PRINT=1.
#include "common.hpp"

struct DrvStream : Stream {
  int read() override;
  size_t readBytes(char* buffer, size_t length) override;
};
struct DrvPrint : Print {
  size_t write(uint8_t) override;
  size_t write(const uint8_t* buffer, size_t size) override;
};

void drive_arduino() {
  JsonDocument doc, filterDoc;
  DeserializationOption::Filter flt(filterDoc);
  DeserializationOption::NestingLimit nl(5);
  String s("{}");
  const String cs("{}");
  DrvStream st;
  Stream& sr = st;
  DrvPrint pr;
  Print& prr = pr;
  const __FlashStringHelper* f = F("{}");
  size_t n = 2;

  deserializeJson(doc, s);
  deserializeJson(doc, cs);
  deserializeJson(doc, sr);
  deserializeJson(doc, st);
  deserializeJson(doc, f);
  deserializeJson(doc, f, n);
  deserializeJson(doc, s, flt);
  deserializeJson(doc, sr, flt, nl);
  deserializeJson(doc, f, flt);
  deserializeJson(doc, f, n, nl, flt);
  deserializeMsgPack(doc, s);
  deserializeMsgPack(doc, sr);
  deserializeMsgPack(doc, f);
  deserializeMsgPack(doc, f, n);
  deserializeMsgPack(doc, s, flt);
  deserializeMsgPack(doc, sr, flt, nl);
  deserializeMsgPack(doc, f, n, flt);
  deserializeJson(doc["k"], s);
  deserializeJson(doc[0], f);

  size_t k = 0;
  k += serializeJson(doc, s);
  k += serializeJson(doc, prr);
  k += serializeJson(doc, pr);
  k += serializeJsonPretty(doc, s);
  k += serializeJsonPretty(doc, prr);
  k += serializeMsgPack(doc, s);
  k += serializeMsgPack(doc, prr);
  k += serializeJson(doc["k"], s);
  k += serializeJson(doc.as<JsonVariantConst>(), prr);

  JsonVariant v = doc.to<JsonVariant>();
  bool ok = v.set(s) & v.set(cs) & v.set(f) & v.add(s) & v.add(f);
  doc["k"] = s;
  doc["k"] = f;
  doc[s] = 1;
  doc[f] = 2;
  doc[0] = s;
  doc[s][f] = s;
  ok ^= doc[s].is<int>() ^ doc[f].is<String>();
  String out = v.as<String>();
  out = doc["k"].as<String>();
  ok ^= v.is<String>();
  String imp = doc["k"];
  out = v | String("d");
  doc.remove(s);
  doc.remove(f);
  v.remove(s);
  v.remove(f);
  JsonObject o = doc.to<JsonObject>();
  o[s] = s;
  o[f] = f;
  o.remove(s);
  o.remove(f);
  JsonObjectConst oc = o;
  ok ^= oc[s].isNull() ^ oc[f].isNull();
  JsonVariantConst vc = v;
  ok ^= vc[s].isNull() ^ vc[f].isNull();
  ok ^= (v == s) ^ (s == v) ^ (v < s) ^ (v != s) ^ (v == f) ^ (f == v);
  v.set(serialized(s));
  v.set(serialized(f));
  v.set(serialized(f, 2));
  JsonString js(s.c_str(), s.length());
  DeserializationError e = deserializeJson(doc, s);
  const __FlashStringHelper* msg = e.f_str();
  const char* msg2 = e.c_str();
  (void)msg2;
  (void)msg;
  (void)k;
  (void)ok;
  (void)imp;
}
