// Minimal unit for the pool-geometry matrix (C19): instantiates the slot
// pools, the string pool and the string builder only.
#include <ArduinoJson.h>
void drive_geom() {
  ArduinoJson::JsonDocument doc;
  doc.add(1);
  doc.add(1.5);
  doc.add("s");
  doc["k"] = 1;
  doc.remove(0);
  doc.shrinkToFit();
  doc.clear();
  deserializeJson(doc, "[\"x\"]");
}
