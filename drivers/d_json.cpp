#include "common.hpp"

template <typename TDst>
void json_in(TDst&& dst, JsonDocument& filterDoc) {
  const char* cc = "{}";
  char buf[32] = "[1,2]";
  char* mc = buf;
  const unsigned char* cuc = reinterpret_cast<const unsigned char*>(buf);
  unsigned char* muc = reinterpret_cast<unsigned char*>(buf);
  std::string s("{}");
  const std::string cs("{}");
  std::istringstream is("{}");
  DrvReader rd;
  JsonDocument src;
  JsonVariant v = src.to<JsonVariant>();
  JsonVariantConst vc = v;
  DeserializationOption::Filter flt(filterDoc);
  DeserializationOption::NestingLimit nl(5);
  size_t n = 5;
  int in = 5;

  deserializeJson(dst, cc);
  deserializeJson(dst, mc);
  deserializeJson(dst, buf);
  deserializeJson(dst, cuc);
  deserializeJson(dst, muc);
  deserializeJson(dst, cc, n);
  deserializeJson(dst, mc, n);
  deserializeJson(dst, cuc, in);
  deserializeJson(dst, s);
  deserializeJson(dst, cs);
  deserializeJson(dst, is);
  deserializeJson(dst, rd);
  deserializeJson(dst, v);
  deserializeJson(dst, vc);
  deserializeJson(dst, src["k"]);
  deserializeJson(dst, src[0]);
#if __cplusplus >= 201703L
  std::string_view sv("{}");
  deserializeJson(dst, sv);
  deserializeJson(dst, sv, flt);
  deserializeJson(dst, sv, nl, flt);
#endif

  deserializeJson(dst, cc, flt);
  deserializeJson(dst, cc, nl);
  deserializeJson(dst, cc, flt, nl);
  deserializeJson(dst, cc, nl, flt);
  deserializeJson(dst, mc, flt);
  deserializeJson(dst, mc, nl, flt);
  deserializeJson(dst, cc, n, flt);
  deserializeJson(dst, cc, n, nl);
  deserializeJson(dst, cc, n, flt, nl);
  deserializeJson(dst, s, flt);
  deserializeJson(dst, s, nl);
  deserializeJson(dst, s, flt, nl);
  deserializeJson(dst, is, flt);
  deserializeJson(dst, is, nl);
  deserializeJson(dst, is, flt, nl);
  deserializeJson(dst, rd, flt);
  deserializeJson(dst, rd, nl);
  deserializeJson(dst, rd, flt, nl);
  deserializeJson(dst, v, flt);
  deserializeJson(dst, vc, flt, nl);
}

template <typename TSrc>
void json_out(TSrc&& src) {
  char buf[64];
  char* p = buf;
  unsigned char ubuf[64];
  void* vp = buf;
  std::string s;
  std::ostringstream os;
  DrvWriter w;
  size_t n = 0;
  n += serializeJson(src, buf);
  n += serializeJson(src, ubuf);
  n += serializeJson(src, p, sizeof(buf));
  n += serializeJson(src, vp, sizeof(buf));
  n += serializeJson(src, s);
  n += serializeJson(src, os);
  n += serializeJson(src, w);
  n += measureJson(src);
  n += serializeJsonPretty(src, buf);
  n += serializeJsonPretty(src, ubuf);
  n += serializeJsonPretty(src, p, sizeof(buf));
  n += serializeJsonPretty(src, vp, sizeof(buf));
  n += serializeJsonPretty(src, s);
  n += serializeJsonPretty(src, os);
  n += serializeJsonPretty(src, w);
  n += measureJsonPretty(src);
  os << src;
  (void)n;
}

void drive_json() {
  JsonDocument doc, filterDoc;
  json_in(doc, filterDoc);
  json_in(doc.to<JsonVariant>(), filterDoc);
  json_in(doc["member"], filterDoc);
  json_in(doc[0], filterDoc);
  json_in(doc["a"]["b"], filterDoc);
  json_in(doc[0][1], filterDoc);

  json_out(doc);
  const JsonDocument& cdoc = doc;
  json_out(cdoc);
  json_out(doc.as<JsonVariant>());
  json_out(doc.as<JsonVariantConst>());
  json_out(doc.as<JsonArray>());
  json_out(doc.as<JsonArrayConst>());
  json_out(doc.as<JsonObject>());
  json_out(doc.as<JsonObjectConst>());
  json_out(doc["k"]);
  json_out(doc[0]);
}
