#include "common.hpp"

template <typename TDst>
void mp_in(TDst&& dst, JsonDocument& filterDoc) {
  char buf[32] = "\x90";
  const char* cc = buf;
  char* mc = buf;
  const unsigned char* cuc = reinterpret_cast<const unsigned char*>(buf);
  unsigned char* muc = reinterpret_cast<unsigned char*>(buf);
  const uint8_t* u8 = cuc;
  std::string s("\x90");
  const std::string cs("\x90");
  std::istringstream is("\x90");
  DrvReader rd;
  JsonDocument src;
  JsonVariant v = src.to<JsonVariant>();
  JsonVariantConst vc = v;
  DeserializationOption::Filter flt(filterDoc);
  DeserializationOption::NestingLimit nl(5);
  size_t n = 5;
  unsigned un = 5;

  deserializeMsgPack(dst, cc);
  deserializeMsgPack(dst, mc);
  deserializeMsgPack(dst, buf);
  deserializeMsgPack(dst, cuc);
  deserializeMsgPack(dst, muc);
  deserializeMsgPack(dst, cc, n);
  deserializeMsgPack(dst, mc, n);
  deserializeMsgPack(dst, u8, un);
  deserializeMsgPack(dst, s);
  deserializeMsgPack(dst, cs);
  deserializeMsgPack(dst, is);
  deserializeMsgPack(dst, rd);
  deserializeMsgPack(dst, v);
  deserializeMsgPack(dst, vc);
#if __cplusplus >= 201703L
  std::string_view sv("\x90");
  deserializeMsgPack(dst, sv);
  deserializeMsgPack(dst, sv, flt);
  deserializeMsgPack(dst, sv, nl, flt);
#endif
  deserializeMsgPack(dst, cc, flt);
  deserializeMsgPack(dst, cc, nl);
  deserializeMsgPack(dst, cc, flt, nl);
  deserializeMsgPack(dst, cc, n, flt);
  deserializeMsgPack(dst, cc, n, nl);
  deserializeMsgPack(dst, cc, n, flt, nl);
  deserializeMsgPack(dst, cc, n, nl, flt);
  deserializeMsgPack(dst, s, flt);
  deserializeMsgPack(dst, s, nl);
  deserializeMsgPack(dst, s, flt, nl);
  deserializeMsgPack(dst, is, flt);
  deserializeMsgPack(dst, is, nl);
  deserializeMsgPack(dst, is, flt, nl);
  deserializeMsgPack(dst, rd, flt);
  deserializeMsgPack(dst, rd, nl);
  deserializeMsgPack(dst, rd, flt, nl);
  deserializeMsgPack(dst, v, flt);
  deserializeMsgPack(dst, vc, nl, flt);
}

template <typename TSrc>
void mp_out(TSrc&& src) {
  char buf[64];
  char* p = buf;
  unsigned char ubuf[64];
  void* vp = buf;
  std::string s;
  std::ostringstream os;
  DrvWriter w;
  size_t n = 0;
  n += serializeMsgPack(src, buf);
  n += serializeMsgPack(src, ubuf);
  n += serializeMsgPack(src, p, sizeof(buf));
  n += serializeMsgPack(src, vp, sizeof(buf));
  n += serializeMsgPack(src, s);
  n += serializeMsgPack(src, os);
  n += serializeMsgPack(src, w);
  n += measureMsgPack(src);
  (void)n;
}

void drive_msgpack() {
  JsonDocument doc, filterDoc;
  mp_in(doc, filterDoc);
  mp_in(doc.to<JsonVariant>(), filterDoc);
  mp_in(doc["member"], filterDoc);
  mp_in(doc[0], filterDoc);

  mp_out(doc);
  const JsonDocument& cdoc = doc;
  mp_out(cdoc);
  mp_out(doc.as<JsonVariant>());
  mp_out(doc.as<JsonVariantConst>());
  mp_out(doc.as<JsonArray>());
  mp_out(doc.as<JsonArrayConst>());
  mp_out(doc.as<JsonObject>());
  mp_out(doc.as<JsonObjectConst>());
  mp_out(doc["k"]);
  mp_out(doc[0]);

  // binary / extension values
  MsgPackBinary bin("abc", 3);
  MsgPackExtension ext(1, "abc", 3);
  doc["bin"] = bin;
  doc["ext"] = ext;
  doc[0] = bin;
  doc.set(bin);
  doc.set(ext);
  doc.add(bin);
  doc.add(ext);
  doc.to<JsonVariant>().set(bin);
  doc.to<JsonVariant>().set(ext);
  bin = doc["bin"].as<MsgPackBinary>();
  ext = doc["ext"].as<MsgPackExtension>();
  bool b = doc["bin"].is<MsgPackBinary>() | doc["ext"].is<MsgPackExtension>();
  JsonVariantConst vc = doc.as<JsonVariantConst>();
  bin = vc.as<MsgPackBinary>();
  ext = vc.as<MsgPackExtension>();
  b |= vc.is<MsgPackBinary>() | vc.is<MsgPackExtension>();
  (void)b;
}
