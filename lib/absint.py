"""A small path-wise abstract interpreter over the ajx CFG (R-VAL of DESIGN).

Domain: integer expressions are constants, `symbol + k`, or unknown; the path
condition maps symbols to closed intervals refined by comparisons against
constants.  Branches whose condition folds are taken statically, others fork.
A path ends at the exit, at a revisited block (loop) or at a recorded 'stop'
call.  Events (calls to functions of interest with abstract arguments,
assignments to watched variables) are collected in order.  Same-class helper
calls can be inlined with parameters bound to the abstract arguments.

This is constant propagation + interval refinement on the syntax of the
current tree; no library code is executed.
"""
from lib import prog as P

UNK = ("u",)


def C(v):
    return ("c", int(v))


def is_c(a):
    return isinstance(a, tuple) and len(a) > 0 and a[0] == "c"


def is_s(a):
    return isinstance(a, tuple) and len(a) > 0 and a[0] == "s"


def type_range(tk):
    if tk == "bool":
        return (0, 1)
    if tk and tk[0] in "su" and tk[1:].isdigit():
        w = int(tk[1:])
        return (0, (1 << w) - 1) if tk[0] == "u" else (-(1 << (w - 1)), (1 << (w - 1)) - 1)
    return None


def wrap(v, tk):
    r = type_range(tk)
    if r is None:
        return v
    w = r[1] - r[0] + 1
    return (v - r[0]) % w + r[0]


class Path(object):
    __slots__ = ("pc", "env", "events", "end", "blocks", "ret", "nforks", "seenf", "callval", "ne")

    def __init__(self):
        self.pc = {}
        self.env = {}
        self.events = []
        self.end = None
        self.blocks = []
        self.ret = None
        self.nforks = 0
        self.seenf = {}
        self.callval = {}
        self.ne = {}

    def clone(self):
        p = Path()
        p.pc = dict(self.pc)
        p.env = dict(self.env)
        p.events = list(self.events)
        p.end = self.end
        p.blocks = list(self.blocks)
        p.ret = self.ret
        p.nforks = self.nforks
        p.seenf = dict(self.seenf)
        p.callval = dict(self.callval)
        p.ne = dict(self.ne)
        return p

    def excluded(self, sym, v):
        return v in self.ne.get(sym, ())

    def exclude(self, sym, v):
        self.ne[sym] = frozenset(self.ne.get(sym, ())) | {v}
        lo, hi = self.rng(sym)
        while lo <= hi and lo in self.ne[sym]:
            lo += 1
        while hi >= lo and hi in self.ne[sym]:
            hi -= 1
        self.pc[sym] = (lo, hi)
        return lo <= hi

    def can_be(self, sym, v):
        lo, hi = self.rng(sym)
        return lo <= v <= hi and v not in self.ne.get(sym, ())

    def rng(self, sym, default=(-(1 << 70), 1 << 70)):
        return self.pc.get(sym, default)


class Interp(object):
    def __init__(self, prog, emit=(), inline=(), pure_syms=("size",), max_paths=4000, watch_members=()):
        self.prog = prog
        self.emit = tuple(emit)        # callee bare-name suffixes recorded as events
        self.inline = tuple(inline)    # callee bare-name suffixes inlined
        self.pure_syms = pure_syms     # accessor names whose results are symbols
        self.max_paths = max_paths
        self.watch_members = watch_members
        self.n_paths = 0

    def _merge(self, paths, keyfn):
        """Join paths that agree on keyfn: interval hull, intersection of
        excluded values (a sound over-approximation of their union)."""
        groups = {}
        order = []
        for p in paths:
            k = keyfn(p)
            if k not in groups:
                groups[k] = p
                order.append(k)
                continue
            g = groups[k]
            for sym in set(g.pc) | set(p.pc):
                a, b = g.pc.get(sym), p.pc.get(sym)
                if a is None or b is None:
                    g.pc.pop(sym, None)
                else:
                    g.pc[sym] = (min(a[0], b[0]), max(a[1], b[1]))
            for sym in set(g.ne) | set(p.ne):
                g.ne[sym] = frozenset(g.ne.get(sym, ())) & frozenset(p.ne.get(sym, ()))
            if len(p.events) > len(g.events):
                g.events = p.events
            g.nforks = max(g.nforks, p.nforks)
        return [groups[k] for k in order]

    def on_call(self, fn, e, st, path):
        """Hook for subclasses: return a list of resulting paths, or None."""
        return None

    def make_sub(self):
        sub = type(self)(self.prog, self.emit, self.inline, self.pure_syms, self.max_paths, self.watch_members)
        for k_, v_ in self.__dict__.items():
            if k_ not in ("n_paths",):
                setattr(sub, k_, v_)
        return sub

    # ---------------------------------------------------------------- eval
    def ev(self, fn, i, path, top=False):
        if i is None or i < 0:
            return UNK
        st = fn.s(i)
        k = st["k"]
        ch = [c for c in st["c"] if c is not None and c >= 0]
        if k in P.TRANSPARENT:
            if k == "ImplicitCastExpr" and st.get("ck") in ("IntegralCast",) and ch:
                a = self._point(self.ev(fn, ch[0], path), path)
                if is_c(a):
                    return C(wrap(a[1], st.get("tk")))
                return a
            return self.ev(fn, ch[0], path) if ch else UNK
        if k in P.EXPLICIT_CASTS:
            a = self._point(self.ev(fn, ch[0], path), path) if ch else UNK
            if is_c(a):
                return C(wrap(a[1], st.get("tk")))
            if is_s(a):
                r = type_range(st.get("tk"))
                lo, hi = path.rng(a[1])
                if r and r[0] <= lo + a[2] and hi + a[2] <= r[1]:
                    return a
                return ("s", a[1], a[2], st.get("tk")) if len(a) == 3 else a
            return a
        if "cv" in st and k not in ("DeclRefExpr",):
            # folded by clang (literals, enumerators, sizeof, constexpr)
            if not any(fn.s(x)["k"] == "DeclRefExpr" and fn.s(x)["ref"]["k"] in ("local", "parm") for x in fn.walk(i)):
                return C(st["cv"])
        if k == "StringLiteral":
            return ("p", tuple(st.get("bytes", ())), 0)
        if k in ("IntegerLiteral",):
            return C(st["v"])
        if k == "CharacterLiteral":
            return C(st["v"])
        if k == "CXXBoolLiteralExpr":
            return C(1 if st["v"] else 0)
        if k == "DeclRefExpr":
            r = st["ref"]
            if r["k"] == "enumerator" and "cv" in st:
                return C(st["cv"])
            if r["d"] in path.env:
                return path.env[r["d"]]
            c = fn.const(i)
            if c is not None:
                return C(c)
            return UNK
        if k == "MemberExpr":
            if st.get("m") in self.watch_members and ("m:" + st["m"]) in path.env:
                return path.env["m:" + st["m"]]
            return UNK
        if k == "BinaryOperator":
            op = st["op"]
            if op == ",":
                return self.ev(fn, ch[1], path)
            a = self.ev(fn, ch[0], path)
            b = self.ev(fn, ch[1], path)
            # fold symbols with point intervals
            a = self._point(a, path)
            b = self._point(b, path)
            if op == "&&" and ((is_c(a) and not a[1]) or (is_c(b) and not b[1])):
                return C(0)
            if op == "||" and ((is_c(a) and a[1]) or (is_c(b) and b[1])):
                return C(1)
            if is_c(a) and is_c(b):
                try:
                    x, y = a[1], b[1]
                    v = {"+": x + y, "-": x - y, "*": x * y, "&": x & y, "|": x | y, "^": x ^ y,
                         "<<": x << y if 0 <= y < 128 else 0, ">>": x >> y if 0 <= y < 128 else 0,
                         "/": (abs(x) // abs(y)) * (1 if (x >= 0) == (y >= 0) else -1) if y else 0,
                         "%": (abs(x) % abs(y)) * (1 if x >= 0 else -1) if y else 0,
                         "==": int(x == y), "!=": int(x != y), "<": int(x < y), ">": int(x > y),
                         "<=": int(x <= y), ">=": int(x >= y),
                         "&&": int(bool(x) and bool(y)), "||": int(bool(x) or bool(y))}[op]
                    return C(wrap(v, st.get("tk")))
                except KeyError:
                    return UNK
            if op == "+" and is_s(a) and is_c(b) and len(a) == 3:
                return ("s", a[1], a[2] + b[1])
            if op == "+" and is_c(a) and is_s(b) and len(b) == 3:
                return ("s", b[1], b[2] + a[1])
            if op == "-" and is_s(a) and is_c(b) and len(a) == 3:
                return ("s", a[1], a[2] - b[1])
            if op in ("==", "!=", "<", ">", "<=", ">="):
                t = self._cmp(a, op, b, path)
                if t is not None:
                    return C(int(t))
            return UNK
        if k == "UnaryOperator":
            if st["op"] in ("++", "--"):
                # the element already executed: a prefix form has the new
                # value, a postfix form the old one
                a = self._point(self.ev(fn, ch[0], path), path)
                d = 1 if st["op"] == "++" else -1
                if not st.get("postfix"):
                    return a
                if is_c(a):
                    return C(wrap(a[1] - d, st.get("tk")))
                if is_s(a) and len(a) == 3:
                    return ("s", a[1], a[2] - d)
                if a[0] == "p":
                    return ("p", a[1], a[2] - d)
                return UNK
            a = self._point(self.ev(fn, ch[0], path), path)
            if st["op"] == "*" and a[0] == "p":
                b, o = a[1], a[2]
                if 0 <= o < len(b):
                    return C(wrap(b[o], "s8"))
                if o == len(b):
                    return C(0)     # the literal's terminator
                return UNK
            if is_c(a):
                if st["op"] == "-":
                    return C(wrap(-a[1], st.get("tk")))
                if st["op"] == "!":
                    return C(int(not a[1]))
                if st["op"] == "~":
                    return C(wrap(~a[1], st.get("tk")))
                if st["op"] == "+":
                    return a
            return UNK
        if k == "ConditionalOperator":
            c = self._point(self.ev(fn, ch[0], path), path)
            if is_c(c):
                return self.ev(fn, ch[1] if c[1] else ch[2], path)
            a1 = self._point(self.ev(fn, ch[1], path), path)
            a2 = self._point(self.ev(fn, ch[2], path), path)
            if is_c(a1) and is_c(a2):
                if a1 == a2:
                    return a1
                if a1[1] != 0 and a2[1] != 0:
                    return ("nz",)   # unknown, but certainly non-zero
            return UNK
        if k in P.CALL_KINDS:
            if i in path.callval:
                return path.callval[i]
            nm = st.get("callee", {}).get("q", "").split("::")[-1]
            if nm in self.pure_syms:
                sym = fn.text(i)
                r = type_range(st.get("tk"))
                cap = getattr(self, "sym_cap", None)
                if r and cap:
                    r = (max(r[0], cap[0]), min(r[1], cap[1]))
                if r:
                    path.pc.setdefault(sym, r)
                return ("s", sym, 0)
            return UNK
        return UNK

    def _point(self, a, path):
        if is_s(a) and len(a) == 3:
            lo, hi = path.rng(a[1])
            if lo == hi:
                return C(lo + a[2])
        return a

    def _cmp(self, a, op, b, path):
        """Decide a comparison from intervals if possible."""
        def rng(x):
            if is_c(x):
                return (x[1], x[1])
            if is_s(x) and len(x) == 3:
                lo, hi = path.rng(x[1])
                return (lo + x[2], hi + x[2])
            return None
        ra, rb = rng(a), rng(b)
        if ra is None or rb is None:
            return None
        if op == "<":
            if ra[1] < rb[0]:
                return True
            if ra[0] >= rb[1]:
                return False
        elif op == "<=":
            if ra[1] <= rb[0]:
                return True
            if ra[0] > rb[1]:
                return False
        elif op == ">":
            if ra[0] > rb[1]:
                return True
            if ra[1] <= rb[0]:
                return False
        elif op == ">=":
            if ra[0] >= rb[1]:
                return True
            if ra[1] < rb[0]:
                return False
        elif op in ("==", "!="):
            eq = None
            if ra[0] == ra[1] == rb[0] == rb[1]:
                eq = True
            elif ra[1] < rb[0] or rb[1] < ra[0]:
                eq = False
            else:
                for x, y in ((a, b), (b, a)):
                    if is_s(x) and len(x) == 3 and is_c(y) and path.excluded(x[1], y[1] - x[2]):
                        eq = False
            if eq is not None:
                return eq if op == "==" else not eq
        return None

    # ------------------------------------------------------------- refine
    def refine(self, fn, cond, pol, path):
        """Refine the path condition with cond == pol.  Returns False if the
        branch is infeasible."""
        i = fn.strip(cond, casts=True)
        st = fn.s(i)
        while st["k"] == "UnaryOperator" and st["op"] == "!":
            pol = not pol
            i = fn.strip(st["c"][0], casts=True)
            st = fn.s(i)
        v = self._point(self.ev(fn, i, path), path)
        if is_c(v):
            return bool(v[1]) == pol
        if v == ("nz",):
            return pol is True
        if is_s(v) and len(v) == 3:
            # truthiness of a symbol: non-zero / zero
            lo, hi = path.rng(v[1])
            k = -v[2]
            if pol:
                return path.exclude(v[1], k)
            if path.excluded(v[1], k):
                return False
            lo, hi = max(lo, k), min(hi, k)
            if lo > hi:
                return False
            path.pc[v[1]] = (lo, hi)
            return True
        if st["k"] == "BinaryOperator" and st["op"] in ("==", "!=", "<", ">", "<=", ">="):
            a = self._point(self.ev(fn, st["c"][0], path), path)
            b = self._point(self.ev(fn, st["c"][1], path), path)
            op = st["op"]
            if is_c(a) and is_s(b):
                a, b = b, a
                op = {"<": ">", ">": "<", "<=": ">=", ">=": "<=", "==": "==", "!=": "!="}[op]
            if is_s(a) and len(a) == 3 and is_c(b):
                if not pol:
                    op = {"<": ">=", ">": "<=", "<=": ">", ">=": "<", "==": "!=", "!=": "=="}[op]
                lo, hi = path.rng(a[1])
                k = b[1] - a[2]
                if op == "<":
                    hi = min(hi, k - 1)
                elif op == "<=":
                    hi = min(hi, k)
                elif op == ">":
                    lo = max(lo, k + 1)
                elif op == ">=":
                    lo = max(lo, k)
                elif op == "==":
                    if path.excluded(a[1], k):
                        return False
                    lo, hi = max(lo, k), min(hi, k)
                elif op == "!=":
                    return path.exclude(a[1], k)
                if lo > hi:
                    return False
                path.pc[a[1]] = (lo, hi)
            elif is_s(a) and is_s(b) and len(a) == 3 and len(b) == 3 and a[2] == 0 and b[2] == 0:
                if not pol:
                    op = {"<": ">=", ">": "<=", "<=": ">", ">=": "<", "==": "!=", "!=": "=="}[op]
                if op == "==":
                    la, ha = path.rng(a[1])
                    lb, hb = path.rng(b[1])
                    lo, hi = max(la, lb), min(ha, hb)
                    if lo > hi:
                        return False
                    ne = frozenset(path.ne.get(a[1], ())) | frozenset(path.ne.get(b[1], ()))
                    path.pc[a[1]] = path.pc[b[1]] = (lo, hi)
                    if ne:
                        path.ne[a[1]] = path.ne[b[1]] = ne
                        for v_ in ne:
                            if not path.exclude(a[1], v_) or not path.exclude(b[1], v_):
                                return False
        return True

    def refine_multi(self, fn, cond, pol, path, depth=0):
        """Like refine, but handles && / || / ! by case split.  Returns the
        list of refined clones of path (empty = infeasible)."""
        i = fn.strip(cond, casts=True)
        st = fn.s(i)
        if depth < 8 and st["k"] == "UnaryOperator" and st["op"] == "!":
            return self.refine_multi(fn, st["c"][0], not pol, path, depth + 1)
        if depth < 8 and st["k"] == "BinaryOperator" and st["op"] in ("&&", "||"):
            a, b = st["c"]
            conj = (st["op"] == "&&") == pol
            if conj:
                # both operands take polarity pol
                out = []
                for p1 in self.refine_multi(fn, a, pol, path, depth + 1):
                    out.extend(self.refine_multi(fn, b, pol, p1, depth + 1))
                return out
            out = list(self.refine_multi(fn, a, pol, path, depth + 1))
            for p1 in self.refine_multi(fn, a, not pol, path, depth + 1):
                out.extend(self.refine_multi(fn, b, pol, p1, depth + 1))
            return out
        p2 = path.clone()
        if self.refine(fn, cond, pol, p2):
            return [p2]
        return []

    # ---------------------------------------------------------------- run
    def run(self, fn, init_env=None, init_pc=None, depth=0, init_ne=None):
        """All paths of fn.  init_env: {decl id: AV}."""
        p0 = Path()
        if init_env:
            p0.env.update(init_env)
        if init_pc:
            p0.pc.update(init_pc)
        if init_ne:
            p0.ne.update(init_ne)
        done = []
        self._walk(fn, fn.cfg["entry"], p0, done, depth)
        return done

    def _walk(self, fn, b, path, done, depth):
        blocks = fn.blocks()
        while True:
            if self.n_paths > self.max_paths:
                path.end = "budget"
                done.append(path)
                return
            if b in path.seenf:
                # a revisit is a real loop iteration only if the path made no
                # non-deterministic choice since the last visit (every branch
                # on the cycle folded): then unroll, else cut
                static_head = False
                hb = blocks[b]
                if "cond" in hb and hb.get("termk") != "SwitchStmt":
                    cv_ = self._point(self.ev(fn, hb["cond"], path), path)
                    static_head = is_c(cv_)
                ak = getattr(self, "abs_key", None)
                covered = True
                if ak is not None:
                    k_now = ak(path)
                    seen_keys = path.seenf.get(("abs", b), frozenset())
                    covered = k_now in seen_keys
                    path.seenf[("abs", b)] = seen_keys | {k_now}
                over = path.blocks.count(b) > getattr(self, "max_unroll", 40)
                if (path.seenf[b] != path.nforks and not static_head and covered) or over:
                    path.end = "loop" if (covered or ak is None) else "budget"
                    self.n_paths += 1
                    done.append(path)
                    return
                # a permitted iteration: the blocks of the cycle may be visited again
                for k_ in list(path.seenf):
                    if isinstance(k_, int) and k_ != b:
                        del path.seenf[k_]
            elif path.blocks.count(b) > getattr(self, "max_unroll", 40):
                path.end = "loop"
                self.n_paths += 1
                done.append(path)
                return
            path.seenf[b] = path.nforks
            if getattr(self, "abs_key", None) is not None and ("abs", b) not in path.seenf:
                path.seenf[("abs", b)] = frozenset({self.abs_key(path)})
            path.blocks.append(b)
            blk = blocks[b]
            cont = self._exec_block(fn, blk, path, depth)
            if cont is not None:
                # forks produced by inlined callees: continue each
                for p2 in cont[1:]:
                    self._after_block(fn, blk, p2, done, depth)
                path = cont[0]
            if path.end == "stop":
                self.n_paths += 1
                done.append(path)
                return
            if blk.get("noreturn"):
                # assertion failure / abort: the function does not return
                path.end = "abort"
                self.n_paths += 1
                done.append(path)
                return
            if b == fn.cfg["exit"]:
                path.end = "exit"
                self.n_paths += 1
                done.append(path)
                return
            nxt = self._successors(fn, blk, path)
            if not nxt:
                path.end = "exit"
                self.n_paths += 1
                done.append(path)
                return
            for s, p2 in nxt[1:]:
                self._walk(fn, s, p2, done, depth)
            b, path = nxt[0]

    def _after_block(self, fn, blk, path, done, depth):
        if path.end == "stop" or blk["id"] == fn.cfg["exit"]:
            path.end = path.end or "exit"
            done.append(path)
            return
        for s, p2 in self._successors(fn, blk, path):
            self._walk(fn, s, p2, done, depth)

    def _successors(self, fn, blk, path):
        succ = [s for s in blk["succ"]]
        if blk.get("termk") == "SwitchStmt" and "cond" in blk:
            v = self._point(self.ev(fn, blk["cond"], path), path)
            blocks = fn.blocks()
            cases = []
            default = None
            for s in succ:
                if s < 0:
                    continue
                lb = blocks[s].get("label")
                ls = fn.s(lb) if lb is not None else None
                if ls is not None and ls["k"] == "CaseStmt":
                    cases.append((int(ls["lo"]), int(ls.get("hi", ls["lo"])), s))
                else:
                    default = s
            if is_c(v):
                for lo, hi, s in cases:
                    if lo <= v[1] <= hi:
                        return [(s, path)]
                return [(default, path)] if default is not None else []
            out = []
            sym = v[1] if is_s(v) and len(v) == 3 else None
            for lo, hi, s in cases:
                p2 = path.clone()
                if sym is not None:
                    rl, rh = p2.rng(sym)
                    nl, nh = max(rl, lo - v[2]), min(rh, hi - v[2])
                    if nl > nh:
                        continue
                    p2.pc[sym] = (nl, nh)
                out.append((s, p2))
            if default is not None:
                out.append((default, path.clone()))
            if len(out) > 1:
                for _, p2 in out:
                    p2.nforks += 1
            return out
        if "cond" in blk and len(succ) == 2:
            out = []
            for pol, s in ((True, succ[0]), (False, succ[1])):
                if s < 0:
                    continue
                for p2 in self.refine_multi(fn, blk["cond"], pol, path):
                    out.append((s, p2))
            if len(out) > 1:
                for _, p2 in out:
                    p2.nforks += 1
            return out
        return [(s, path) for s in succ if s >= 0][:1] if len(succ) <= 1 else [(s, path.clone()) for s in succ if s >= 0]

    def _exec_block(self, fn, blk, path, depth):
        """Execute the elements of a block.  Returns None or a list of paths
        (forks from inlined callees)."""
        paths = [path]
        for e in blk["el"]:
            if not isinstance(e, int):
                continue
            st = fn.s(e)
            k = st["k"]
            newpaths = []
            for p in paths:
                if p.end == "stop":
                    newpaths.append(p)
                    continue
                if k == "DeclStmt":
                    for d in st["decls"]:
                        if "init" in d:
                            v = self.ev(fn, d["init"], p)
                            if v == UNK and d.get("tk", "")[:1] in ("u", "s", "b"):
                                # a fresh symbol named after the variable
                                v = ("s", d["n"], 0)
                                r = type_range(d.get("tk"))
                                cap = getattr(self, "sym_cap", None)
                                if r and cap and fn.s(fn.strip(d["init"], casts=True))["k"] in P.CALL_KINDS and \
                                        fn.s(fn.strip(d["init"], casts=True)).get("callee", {}).get("q", "").split("::")[-1] in self.pure_syms:
                                    r = (max(r[0], cap[0]), min(r[1], cap[1]))
                                if r:
                                    p.pc.setdefault(d["n"], r)
                            p.env[d["d"]] = v
                        elif type_range(d.get("tk")):
                            p.env[d["d"]] = ("s", d["n"], 0)
                            p.pc.setdefault(d["n"], type_range(d["tk"]))
                        else:
                            p.env[d["d"]] = UNK
                    newpaths.append(p)
                elif k in ("BinaryOperator", "CompoundAssignOperator") and st["op"] in ("=", "+=", "-=", "|=", "<<=", ">>=", "&="):
                    l = fn.s(fn.strip(st["c"][0], casts=True))
                    if st["op"] == "=":
                        v = self.ev(fn, st["c"][1], p)
                    else:
                        v = UNK
                    if l["k"] == "DeclRefExpr" and l["ref"]["k"] in ("local", "parm"):
                        p.env[l["ref"]["d"]] = v
                        p.events.append(("assign", l["ref"]["n"], v, e))
                    elif l["k"] == "MemberExpr" and l["m"] in self.watch_members:
                        p.env["m:" + l["m"]] = v
                        p.events.append(("assign", l["m"], v, e))
                    elif l["k"] == "ArraySubscriptExpr":
                        idx = self._point(self.ev(fn, l["c"][1], p), p)
                        base = fn.text(fn.strip(l["c"][0], casts=True))
                        p.events.append(("store", base, idx, self._point(self.ev(fn, st["c"][1], p), p), e))
                    newpaths.append(p)
                elif k == "UnaryOperator" and st["op"] in ("++", "--"):
                    l = fn.s(fn.strip(st["c"][0], casts=True))
                    if l["k"] == "DeclRefExpr" and l["ref"]["d"] in p.env:
                        v = self._point(p.env[l["ref"]["d"]], p)
                        d = 1 if st["op"] == "++" else -1
                        if is_c(v):
                            p.env[l["ref"]["d"]] = C(wrap(v[1] + d, l.get("tk")))
                        elif is_s(v) and len(v) == 3:
                            p.env[l["ref"]["d"]] = ("s", v[1], v[2] + d)
                        elif v[0] == "p":
                            p.env[l["ref"]["d"]] = ("p", v[1], v[2] + d)
                        else:
                            p.env[l["ref"]["d"]] = UNK
                        p.events.append(("incr", l["ref"]["n"], 1 if st["op"] == "++" else -1, e))
                    elif l["k"] == "DeclRefExpr":
                        p.events.append(("incr", l["ref"]["n"], 1 if st["op"] == "++" else -1, e))
                    newpaths.append(p)
                elif k in P.CALL_KINDS and "callee" in st:
                    q = st["callee"]["q"]
                    hooked = self.on_call(fn, e, st, p)
                    if hooked is not None:
                        newpaths.extend(hooked)
                        continue
                    # arguments bound to non-const references are clobbered
                    cal = self.prog.fns.get(st["callee"]["key"])
                    if cal is not None:
                        for prm, a in zip(cal.params, st.get("args", [])):
                            if "&" in prm["t"] and not prm["t"].startswith("const "):
                                sa = fn.s(fn.strip(a, casts=True))
                                if sa["k"] == "DeclRefExpr" and sa["ref"]["d"] in p.env:
                                    nm_ = sa["ref"]["n"]
                                    if nm_ in getattr(self, "rebind_once", ()) and ("rebound", nm_) not in p.seenf:
                                        # the first value read into it is the pinned symbol
                                        p.seenf[("rebound", nm_)] = 1
                                        p.env[sa["ref"]["d"]] = ("s", nm_, 0)
                                    else:
                                        p.env[sa["ref"]["d"]] = UNK
                    if any(q.endswith(s) for s in self.emit):
                        args = []
                        for a in st.get("args", []):
                            v = self._point(self.ev(fn, a, p), p)
                            # outermost explicit cast type (for width rules)
                            sa = fn.s(fn.strip(a, casts=False))
                            ct = sa.get("tk") if sa["k"] in P.EXPLICIT_CASTS else fn.s(a).get("tk")
                            args.append((v, ct, a))
                        p.events.append(("call", q, args, e, st["callee"]["key"]))
                        newpaths.append(p)
                    elif any(q.endswith(s) for s in self.inline) and depth < getattr(self, "max_depth", 3) and st["callee"]["key"] in self.prog.fns:
                        callee = self.prog.fns[st["callee"]["key"]]
                        env2 = {}
                        for prm, a in zip(callee.params, st.get("args", [])):
                            av = self._point(self.ev(fn, a, p), p)
                            if av == UNK and type_range(prm.get("tk")):
                                av = ("s", prm["n"], 0)
                                p.pc.setdefault(prm["n"], type_range(prm["tk"]))
                            env2[prm["d"]] = av
                        for mk in list(p.env):
                            if isinstance(mk, str):
                                env2[mk] = p.env[mk]
                        sub = self.make_sub()
                        sub.n_paths = self.n_paths
                        subpaths = sub.run(callee, env2, dict(p.pc), depth + 1, init_ne=dict(p.ne))
                        self.n_paths = sub.n_paths
                        for sp in subpaths:
                            if sp.end in ("loop", "abort"):
                                continue     # covered by the other paths / does not return
                            if sp.end == "budget":
                                bp = p.clone()
                                bp.end = "stop"
                                bp.events.append(("budget", q, e))
                                newpaths.append(bp)
                                self.budget_hit = True
                                continue
                            np = p.clone()
                            np.pc = dict(sp.pc)
                            np.events = p.events + [("enter", q, e)] + sp.events[0:] + [("leave", q, sp.ret, e)]
                            for mk in sp.env:
                                if isinstance(mk, str):
                                    np.env[mk] = sp.env[mk]
                            if sp.end == "stop":
                                np.end = "stop"
                            np.ne = dict(sp.ne)
                            np.callval[e] = sp.ret if sp.ret is not None else UNK
                            ai = getattr(self, "after_inline", None)
                            if ai is not None:
                                ai(fn, e, np)
                            newpaths.append(np)
                        mk = getattr(self, "merge_key", None)
                        if mk is not None and len(newpaths) > 1:
                            newpaths = self._merge(newpaths, mk)
                    else:
                        newpaths.append(p)
                elif k == "ReturnStmt":
                    ch = [c for c in st["c"] if c is not None and c >= 0]
                    p.ret = self._point(self.ev(fn, ch[0], p), p) if ch else None
                    if ch and p.ret == UNK and fn.d.get("retk") == "bool" and getattr(self, "split_bool_returns", False):
                        # decide an undecided boolean result by case split
                        made = False
                        for pol in (True, False):
                            for p2 in self.refine_multi(fn, ch[0], pol, p):
                                p2.ret = C(1 if pol else 0)
                                p2.events.append(("return", p2.ret, e))
                                newpaths.append(p2)
                                made = True
                        if made:
                            continue
                    p.events.append(("return", p.ret, e))
                    newpaths.append(p)
                else:
                    newpaths.append(p)
            paths = newpaths
        if len(paths) == 1 and paths[0] is path:
            return None
        return paths
