"""Obligations, verdicts, evidence, known findings."""
import json
import os
import re
import time

from . import facts

VERIF = facts.VERIF

PROVED, REFUTED, UNKNOWN = "proved", "refuted", "unknown"


class Ob(object):
    __slots__ = ("rule", "instance", "status", "where", "detail", "config",
                 "nontrivial")

    def __init__(self, rule, instance, status, where="", detail="",
                 config="", nontrivial=True):
        self.rule = rule
        self.instance = instance
        self.status = status
        self.where = where
        self.detail = detail
        self.config = config
        self.nontrivial = nontrivial

    @property
    def key(self):
        return "%s|%s" % (self.rule, self.instance)

    def as_dict(self):
        return {
            "rule": self.rule, "instance": self.instance,
            "status": self.status, "where": self.where,
            "detail": self.detail, "config": self.config
        }


class Ctx(object):
    """Collects obligations of one check run."""

    def __init__(self, prop, tier):
        self.prop = prop
        self.tier = tier
        self.obs = []
        self.broken = []
        self.notes = []
        self.config = ""
        self.analysed = {}  # free-form counters for the evidence
        self.fixture_mode = False
        self.rule_docs = {}

    def log(self, msg):
        print("[%s] %s" % (self.prop, msg), flush=True)

    def ob(self, rule, instance, ok, where="", detail="", nontrivial=True):
        """ok: True proved / False refuted / None unknown"""
        st = PROVED if ok is True else REFUTED if ok is False else UNKNOWN
        o = Ob(rule, instance, st, where, detail, self.config, nontrivial)
        self.obs.append(o)
        return o

    def brk(self, rule, reason):
        self.broken.append("rule=%s config=%s reason=%s" %
                           (rule, self.config, reason))

    def floor(self, rule, what, count, minimum):
        """A rule matching fewer instances than confirmed by hand is an
        analysis failure, never a pass."""
        self.count(rule + ":" + what, count)
        if count < minimum:
            self.brk(rule, "%s: found %d instance(s), expected at least %d "
                     "(anchor vanished or extractor lost coverage)" %
                     (what, count, minimum))

    def count(self, name, n=1):
        k = "%s@%s" % (name, self.config) if self.config else name
        self.analysed[k] = self.analysed.get(k, 0) + n

    def note(self, msg):
        self.notes.append(msg)

    def doc(self, rule, text):
        self.rule_docs[rule] = text


# ---------------------------------------------------------------- findings
def load_known(prop):
    """known_findings.txt: lines
         known: property=C14 key=<rule|instance> <free text>
         fixed: property=C14 <commit> <free text>
    Only 'known:' lines suppress anything."""
    p = os.path.join(VERIF, "known_findings.txt")
    known = {}
    if not os.path.exists(p):
        return known
    for line in open(p):
        line = line.strip()
        if not line or line.startswith("#"):
            continue
        m = re.match(r"known:\s+property=(\S+)\s+key=(\S+)\s*(.*)", line)
        if m and m.group(1) == prop:
            known[m.group(2)] = m.group(3)
    return known


def finish(ctx, t0, level, explanation, trusted, checker_cmd, seed=0):
    """Aggregate, print verdict lines, write evidence, return exit code."""
    prop = ctx.prop
    known = load_known(prop)
    # group by key across configs
    groups = {}
    for o in ctx.obs:
        groups.setdefault(o.key, []).append(o)
    refuted = {}
    unknown = {}
    proved = 0
    for k, lst in groups.items():
        bad = [o for o in lst if o.status == REFUTED]
        unk = [o for o in lst if o.status == UNKNOWN]
        if bad:
            refuted[k] = bad
        elif unk:
            unknown[k] = unk
        else:
            proved += 1
    rc = 0
    os.makedirs(os.path.join(VERIF, "reports"), exist_ok=True)
    violations = 0
    known_hits = 0
    n = 0
    for k in sorted(refuted):
        lst = refuted[k]
        o = lst[0]
        cfgs = sorted(set(x.config for x in lst))
        # instances may be keyed with a '*' wildcard in the known file
        if k.replace(" ", "_") in known:
            known_hits += 1
            print("KNOWN-FINDING: property=%s %s at %s [%s] %s" %
                  (prop, k, o.where, ",".join(cfgs), o.detail))
            continue
        n += 1
        violations += 1
        rp = os.path.join("reports", "%s-%d.json" % (prop, n))
        with open(os.path.join(VERIF, rp), "w") as fh:
            json.dump({"property": prop, "key": k, "configs": cfgs,
                       "obligations": [x.as_dict() for x in lst]}, fh,
                      indent=1)
        print("REFUTED %s at %s [%s]: %s" % (k, o.where, ",".join(cfgs),
                                            o.detail))
        print("VIOLATION property=%s replay=%s" % (prop, rp))
        rc = 1
    for k in sorted(unknown):
        o = unknown[k][0]
        ctx.broken.append("rule=%s unknown obligation %s at %s: %s" %
                          (o.rule, o.instance, o.where, o.detail))
    if ctx.broken and rc == 0:
        rc = 2
    for b in ctx.broken:
        print("ANALYSIS-BROKEN property=%s %s" % (prop, b))

    # ---- evidence
    per_rule = {}
    for o in ctx.obs:
        r = per_rule.setdefault(o.rule, {"obligations": 0, "proved": 0,
                                         "refuted": 0, "unknown": 0})
        r["obligations"] += 1
        r[o.status] += 1
    nontriv = len(set(o.key for o in ctx.obs if o.nontrivial))
    samples = []
    seen_rules = set()
    for o in ctx.obs:
        if o.rule not in seen_rules or len(samples) < 12:
            if o.rule in seen_rules and len([s for s in samples if s["rule"] == o.rule]) >= 3:
                continue
            seen_rules.add(o.rule)
            samples.append(o.as_dict())
    total = len(groups)
    cov = {
        "explanation": explanation,
        "evaluations": len(ctx.obs),
        "distinct_nontrivial": nontriv,
        "rule": "one obligation per (rule, instance, configuration); "
                "distinct = distinct (rule, instance) keys; non-trivial = "
                "the rule had a real guard / path / table entry to decide "
                "(constant-folded or vacuous instances are marked trivial)",
        "samples": samples[:40],
        "obligations": total,
        "discharged": proved + known_hits if level != "proof" else proved,
        "checker_cmd": checker_cmd,
        "trusted_base": trusted,
        "per_rule": per_rule,
        "rules": ctx.rule_docs,
        "analysed": ctx.analysed,
        "configs": sorted(set(o.config for o in ctx.obs)),
        "known_findings_reported": known_hits,
        "analysis_broken": ctx.broken,
        "notes": ctx.notes,
        "exhaustive": False,
    }
    ev = {
        "property_id": prop,
        "tier": ctx.tier,
        "seed": seed,
        "level": level,
        "coverage": cov,
        "assumptions": trusted,
        "wall_s": round(time.time() - t0, 2),
        "violations": violations,
    }
    if os.environ.get("AJ_NOEVIDENCE"):
        print("[%s] (scratch run: evidence not written)" % prop)
    else:
      os.makedirs(os.path.join(VERIF, "evidence"), exist_ok=True)
      with open(os.path.join(VERIF, "evidence", prop + ".json"), "w") as fh:
          json.dump(ev, fh, indent=1)
    print("[%s] %s tier: %d obligations over %d keys, %d proved, %d refuted "
          "(%d known), %d unknown, %d broken; exit %d" %
          (prop, ctx.tier, len(ctx.obs), total, proved, len(refuted),
           known_hits, len(unknown), len(ctx.broken), rc))
    return rc
