"""Extraction and loading of program facts (engine E1).

Runs tools/ajx/ajx over every (driver unit, configuration) pair, in parallel,
one output file per pair, and merges the per-unit dumps of one configuration
into a single de-duplicated program (pickle).  Everything is keyed by a hash
of the *current* contents of /repo/src, the drivers, the tool and the flags,
so an edited /repo is always re-analysed and an unchanged one is shared by the
checks of all properties.
"""
import fcntl
import hashlib
import json
import os
import pickle
import subprocess
import sys
import time
from concurrent.futures import ThreadPoolExecutor

VERIF = os.path.dirname(os.path.dirname(os.path.abspath(__file__)))
REPO = os.environ.get("AJ_REPO", "/repo")
SRC = os.path.join(REPO, "src")
SRCAJ = os.path.join(SRC, "ArduinoJson") + "/"
AJX = os.path.join(VERIF, "tools", "ajx", "ajx")
# scratch runs (AJ_REPO points at a mutated copy) keep their cache next to
# the scratch copy so that it disappears with it
if os.environ.get("AJ_REPO") and os.path.abspath(os.environ["AJ_REPO"]) != "/repo":
    CACHE = os.path.join(os.path.dirname(os.path.abspath(os.environ["AJ_REPO"])), ".ajcache")
else:
    CACHE = os.path.join(VERIF, ".cache")

ARDUINO_FLAGS = [
    "-I" + os.path.join(REPO, "extras/tests/Helpers"),
    "-DARDUINOJSON_ENABLE_PROGMEM=1",
    "-DARDUINOJSON_ENABLE_ARDUINO_STRING=1",
    "-DARDUINOJSON_ENABLE_ARDUINO_STREAM=1",
    "-DARDUINOJSON_ENABLE_ARDUINO_PRINT=1",
]

STD_DRIVERS = ["d_json.cpp", "d_msgpack.cpp", "d_api.cpp"]
ALL_DRIVERS = STD_DRIVERS + ["d_arduino.cpp"]


def D(**kw):
    return ["-DARDUINOJSON_%s=%s" % (k, v) for k, v in kw.items()]


# name -> (std, flags, drivers)
CONFIGS = {
    "default": ("gnu++17", [], STD_DRIVERS),
    "small": ("gnu++11",
              D(USE_DOUBLE=0, USE_LONG_LONG=0, SLOT_ID_SIZE=1,
                STRING_LENGTH_SIZE=1, POOL_CAPACITY=16, ENABLE_NAN=1),
              STD_DRIVERS),
    "allon": ("gnu++17",
              D(ENABLE_COMMENTS=1, ENABLE_NAN=1, ENABLE_INFINITY=1,
                SLOT_ID_SIZE=4, STRING_LENGTH_SIZE=4, AUTO_SHRINK=0,
                USE_DOUBLE=0, DEBUG=1),
              STD_DRIVERS),
    # the four quick configurations cover all four combinations of
    # USE_DOUBLE x USE_LONG_LONG (default 1/1, small 0/0, allon 0/1,
    # arduino 1/0): both decide which storage kinds and extension slots exist
    # likewise ENABLE_NAN x ENABLE_INFINITY: default 0/0, allon 1/1, small 1/0,
    # arduino 0/1
    "arduino": ("gnu++17", ARDUINO_FLAGS + D(USE_LONG_LONG=0, ENABLE_INFINITY=1),
                ALL_DRIVERS),
}
QUICK = ["default", "small", "allon", "arduino"]

# thorough tier: a pairwise-style covering set over the option space
THOROUGH_EXTRA = {
    "t01": ("gnu++11", D(USE_DOUBLE=0, USE_LONG_LONG=1, DECODE_UNICODE=0,
                         ENABLE_COMMENTS=1, SLOT_ID_SIZE=2,
                         STRING_LENGTH_SIZE=4), STD_DRIVERS),
    "t02": ("gnu++14", D(USE_DOUBLE=1, USE_LONG_LONG=0, ENABLE_NAN=1,
                         SLOT_ID_SIZE=4, STRING_LENGTH_SIZE=1,
                         POOL_CAPACITY=128), STD_DRIVERS),
    "t03": ("gnu++17", D(USE_DOUBLE=0, USE_LONG_LONG=0, ENABLE_INFINITY=1,
                         ENABLE_COMMENTS=1, DECODE_UNICODE=0, SLOT_ID_SIZE=4,
                         STRING_LENGTH_SIZE=2, AUTO_SHRINK=0), STD_DRIVERS),
    "t04": ("gnu++20", D(ENABLE_NAN=1, ENABLE_INFINITY=0, SLOT_ID_SIZE=1,
                         STRING_LENGTH_SIZE=2, POOL_CAPACITY=8,
                         INITIAL_POOL_COUNT=2), STD_DRIVERS),
    "t05": ("gnu++17", D(ENABLE_NAN=0, ENABLE_INFINITY=1, USE_LONG_LONG=0,
                         SLOT_ID_SIZE=2, STRING_LENGTH_SIZE=1,
                         POOL_CAPACITY=256, INITIAL_POOL_COUNT=1),
            STD_DRIVERS),
    "t06": ("gnu++11", ARDUINO_FLAGS + D(USE_DOUBLE=0, ENABLE_COMMENTS=1,
                                         DECODE_UNICODE=0, SLOT_ID_SIZE=1,
                                         STRING_LENGTH_SIZE=1),
            ALL_DRIVERS),
    "t07": ("gnu++17", ARDUINO_FLAGS + D(USE_LONG_LONG=0, ENABLE_NAN=1,
                                         ENABLE_INFINITY=1, SLOT_ID_SIZE=4,
                                         STRING_LENGTH_SIZE=4),
            ALL_DRIVERS),
    "t08": ("gnu++17", D(ENABLE_ALIGNMENT=0, USE_DOUBLE=0, SLOT_ID_SIZE=2,
                         STRING_LENGTH_SIZE=2, AUTO_SHRINK=1), STD_DRIVERS),
    "t09": ("gnu++17", D(LITTLE_ENDIAN=0, USE_DOUBLE=1, USE_LONG_LONG=1),
            STD_DRIVERS),
    "t10": ("gnu++17", D(DEBUG=1), STD_DRIVERS),
}


def all_configs():
    c = dict(CONFIGS)
    c.update(THOROUGH_EXTRA)
    return c


def _sha(*parts):
    h = hashlib.sha256()
    for p in parts:
        if isinstance(p, str):
            p = p.encode()
        h.update(p)
        h.update(b"\0")
    return h.hexdigest()


def tree_hash(root, exts=(".hpp", ".h", ".cpp", ".cc", ".py", ".toml")):
    h = hashlib.sha256()
    for dp, dn, fn in sorted(os.walk(root)):
        dn.sort()
        for f in sorted(fn):
            if f.endswith(exts):
                p = os.path.join(dp, f)
                h.update(p.encode())
                with open(p, "rb") as fh:
                    h.update(fh.read())
    return h.hexdigest()


_src_hash = None


def src_hash():
    global _src_hash
    if _src_hash is None:
        helpers = os.path.join(REPO, "extras/tests/Helpers")
        _src_hash = _sha(tree_hash(SRC), tree_hash(helpers),
                         tree_hash(os.path.join(VERIF, "drivers")),
                         tree_hash(os.path.join(VERIF, "tools", "ajx")))
    return _src_hash


def ensure_tool():
    src = os.path.join(VERIF, "tools", "ajx", "ajx.cc")
    if os.path.exists(AJX) and os.path.getmtime(AJX) >= os.path.getmtime(src):
        return
    os.makedirs(os.path.join(VERIF, ".cache"), exist_ok=True)
    lock = open(os.path.join(VERIF, ".cache", ".toollock"), "w")
    fcntl.flock(lock, fcntl.LOCK_EX)
    try:
        if not (os.path.exists(AJX) and os.path.getmtime(AJX) >= os.path.getmtime(src)):
            build_tool()
    finally:
        fcntl.flock(lock, fcntl.LOCK_UN)
        lock.close()


def build_tool():
    src = os.path.join(VERIF, "tools", "ajx", "ajx.cc")
    flags = subprocess.check_output(["llvm-config-14", "--cxxflags"],
                                    text=True).split()
    tmp = "%s.tmp.%d" % (AJX, os.getpid())
    cmd = ["clang++"] + flags + [
        "-fno-rtti", "-O1", src, "-o", tmp,
        "/usr/lib/llvm-14/lib/libclang-cpp.so.14",
        "/usr/lib/llvm-14/lib/libLLVM-14.so"
    ]
    subprocess.check_call(cmd)
    os.replace(tmp, AJX)


class AnalysisBroken(Exception):
    pass


def _run_unit(args):
    unit, std, flags, out, srcprefixes = args
    cmd = [AJX, unit, "-o", out]
    for p in srcprefixes:
        cmd += ["--src", p]
    cmd += ["--", "-std=" + std, "-I" + SRC, "-fsyntax-only", "-UNDEBUG",
            "-Wno-everything"] + flags
    r = subprocess.run(cmd, stdout=subprocess.PIPE, stderr=subprocess.STDOUT,
                       text=True)
    if r.returncode != 0 or not os.path.exists(out):
        return (unit, False, r.stdout[-4000:])
    return (unit, True, "")


def _merge(files):
    fns = {}
    records = {}
    globs = {}
    enums = {}
    for f in files:
        with open(f) as fh:
            d = json.load(fh)
        for fn in d["functions"]:
            fns.setdefault(fn["key"], fn)
        for r in d["records"]:
            records.setdefault(r["full"], r)
        for g in d["globals"]:
            k = (g["q"], g["file"], g["line"], g.get("dependent"), g["t"])
            globs.setdefault(k, g)
        for e in d["enums"]:
            enums.setdefault((e["q"], e["file"], e["line"]), e)
    return {
        "functions": list(fns.values()),
        "records": list(records.values()),
        "globals": list(globs.values()),
        "enums": list(enums.values()),
    }


def extract(config_names, jobs=16, log=None):
    """Make sure merged facts exist for the given configurations.
    Returns {config: path-of-pickle}."""
    ensure_tool()
    os.makedirs(CACHE, exist_ok=True)
    cfgs = all_configs()
    sh = src_hash()
    result = {}
    lock = open(os.path.join(CACHE, ".lock"), "w")
    fcntl.flock(lock, fcntl.LOCK_EX)
    try:
        todo = []
        per_cfg_files = {}
        for name in config_names:
            std, flags, drivers = cfgs[name]
            tag = _sha(sh, name, std, " ".join(flags), " ".join(drivers))[:20]
            pk = os.path.join(CACHE, "prog-%s-%s.pickle" % (name, tag))
            result[name] = pk
            if os.path.exists(pk):
                continue
            files = []
            for dr in drivers:
                out = os.path.join(CACHE, "unit-%s-%s-%s.json" %
                                   (name, tag, dr.replace(".cpp", "")))
                files.append(out)
                todo.append((os.path.join(VERIF, "drivers", dr), std, flags,
                             out, [SRC + "/"]))
            per_cfg_files[name] = files
        if todo:
            t0 = time.time()
            with ThreadPoolExecutor(max_workers=jobs) as ex:
                res = list(ex.map(_run_unit, todo))
            bad = [r for r in res if not r[1]]
            if bad:
                raise AnalysisBroken("ajx failed on %s:\n%s" %
                                     (bad[0][0], bad[0][2]))
            for name, files in per_cfg_files.items():
                merged = _merge(files)
                merged["config"] = name
                merged["flags"] = cfgs[name][1]
                merged["std"] = cfgs[name][0]
                merged["units"] = cfgs[name][2]
                with open(result[name] + ".tmp", "wb") as fh:
                    pickle.dump(merged, fh, protocol=pickle.HIGHEST_PROTOCOL)
                os.replace(result[name] + ".tmp", result[name])
                for f in files:
                    os.unlink(f)
            if log:
                log("extracted %d units in %.1fs" % (len(todo),
                                                     time.time() - t0))
        _gc_cache(set(result.values()))
    finally:
        fcntl.flock(lock, fcntl.LOCK_UN)
        lock.close()
    return result


def _gc_cache(keep):
    # keep the cache small: drop merged programs of older source states
    now = time.time()
    for f in os.listdir(CACHE):
        p = os.path.join(CACHE, f)
        if p in keep or not f.startswith(("prog-", "unit-", "fx-")):
            continue
        try:
            if now - os.path.getmtime(p) > 1800:
                os.unlink(p)
        except OSError:
            pass


def extract_file(path, std="gnu++17", flags=(), srcprefixes=None):
    """Run ajx on one extra TU (fixtures / witnesses) and return the dump."""
    ensure_tool()
    os.makedirs(CACHE, exist_ok=True)
    with open(path, "rb") as fh:
        tag = _sha(fh.read(), std, " ".join(flags), src_hash(),
                   " ".join(srcprefixes or []))[:20]
    out = os.path.join(CACHE, "fx-%s-%s.json" %
                       (os.path.basename(path).replace(".", "_"), tag))
    if not os.path.exists(out):
        r = _run_unit((path, std, list(flags), out + ".tmp",
                       srcprefixes or [SRC + "/"]))
        if not r[1]:
            raise AnalysisBroken("ajx failed on %s:\n%s" % (path, r[2]))
        os.replace(out + ".tmp", out)
    with open(out) as fh:
        d = json.load(fh)
    d["config"] = "fixture:" + os.path.basename(path)
    return d


def load(path):
    with open(path, "rb") as fh:
        return pickle.load(fh)


def extract_matrix(driver, variants, jobs=16):
    """Run ajx on one driver under many flag vectors.
    variants: [(name, std, flags)] -> {name: dump dict}"""
    ensure_tool()
    os.makedirs(CACHE, exist_ok=True)
    sh = src_hash()
    unit = os.path.join(VERIF, "drivers", driver)
    todo = []
    outs = {}
    for name, std, flags in variants:
        tag = _sha(sh, driver, std, " ".join(flags))[:20]
        out = os.path.join(CACHE, "fx-mx-%s-%s.json" % (driver.replace(".cpp", ""), tag))
        outs[name] = out
        if not os.path.exists(out):
            todo.append((unit, std, list(flags), out, [SRC + "/"]))
    if todo:
        with ThreadPoolExecutor(max_workers=jobs) as ex:
            res = list(ex.map(_run_unit, todo))
        bad = [r for r in res if not r[1]]
        if bad:
            raise AnalysisBroken("ajx failed on %s:\n%s" % (bad[0][0], bad[0][2]))
    result = {}
    for name, out in outs.items():
        with open(out) as fh:
            d = json.load(fh)
        d["config"] = name
        result[name] = d
    return result
