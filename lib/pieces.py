"""Partitioned affine abstract interpretation of small integer routines
(R-PIECE of DESIGN).

The bit arithmetic of the UTF-8 encoder, of the surrogate combiner and of the
hex digit decoder is piecewise affine in its inputs: on a box of input values
that is small enough, every mask, shift, narrowing conversion and comparison
either is constant or is an affine function of the inputs.  This module
interprets the syntax tree of such a routine over *boxes* (one closed
interval per symbolic input) with values of the form  sum(a_i * x_i) + b.
Whenever an operation is not affine on the current box (a comparison that is
true on one part and false on another, a residue that crosses a power-of-two
boundary, a conversion that wraps on one part only) the box is split at that
boundary and both halves are interpreted again.  The result is a finite list
of boxes covering the whole input domain, each with the exact affine
expression of every output byte / returned value: an exact description of the
routine for *all* inputs, obtained without compiling or running it.

Supported: integer locals, a local char array written and read through one
pointer (p++ / --p), if/else, while (unrolled, bounded), return, break,
continue, calls to routines whose body is known (inlined), member calls on
local objects (fields live in the environment), + - * & | ^ << >> ~ ! && ||
comparisons, conditional operator, integer conversions.  Anything else raises
Unsupported, which the rules report as analysis-broken, never as a pass.
"""
from lib import prog as P


class Unsupported(Exception):
    pass


class Split(Exception):
    def __init__(self, sym, at):
        Exception.__init__(self, "split %s at %s" % (sym, at))
        self.sym, self.at = sym, at


class Hazard(Exception):
    """A defect of the routine itself on this box (read of an unwritten cell,
    index outside the array, unbounded loop)."""


class _Return(Exception):
    def __init__(self, v):
        self.v = v


class _Break(Exception):
    pass


class _Continue(Exception):
    pass


def type_range(tk):
    if tk == "bool":
        return (0, 1)
    if tk and tk[0] in "su" and tk[1:].isdigit():
        w = int(tk[1:])
        return (0, (1 << w) - 1) if tk[0] == "u" else (-(1 << (w - 1)), (1 << (w - 1)) - 1)
    return None


class Aff(object):
    __slots__ = ("t", "c")

    def __init__(self, terms=None, const=0):
        self.t = {k: v for k, v in (terms or {}).items() if v != 0}
        self.c = int(const)

    @staticmethod
    def const(c):
        return Aff({}, c)

    @staticmethod
    def sym(s):
        return Aff({s: 1}, 0)

    def is_const(self):
        return not self.t

    def add(self, o):
        t = dict(self.t)
        for k, v in o.t.items():
            t[k] = t.get(k, 0) + v
        return Aff(t, self.c + o.c)

    def neg(self):
        return Aff({k: -v for k, v in self.t.items()}, -self.c)

    def sub(self, o):
        return self.add(o.neg())

    def mul(self, k):
        return Aff({s: v * k for s, v in self.t.items()}, self.c * k)

    def div_exact(self, k):
        for v in list(self.t.values()) + [self.c]:
            if v % k:
                raise Unsupported("inexact division of an affine form")
        return Aff({s: v // k for s, v in self.t.items()}, self.c // k)

    def rng(self, box):
        lo = hi = self.c
        for s, a in self.t.items():
            l, h = box[s]
            if a >= 0:
                lo += a * l
                hi += a * h
            else:
                lo += a * h
                hi += a * l
        return lo, hi

    def at(self, point):
        return self.c + sum(a * point[s] for s, a in self.t.items())

    def key(self):
        return (tuple(sorted(self.t.items())), self.c)

    def __eq__(self, o):
        return isinstance(o, Aff) and self.key() == o.key()

    def __hash__(self):
        return hash(self.key())

    def __repr__(self):
        s = " + ".join("%d*%s" % (a, k) if a != 1 else str(k) for k, a in sorted(self.t.items()))
        if not s:
            return str(self.c)
        return s + (" + %d" % self.c if self.c > 0 else " - %d" % -self.c if self.c < 0 else "")


class Dom(object):
    """Operations on affine forms over a box; may raise Split."""

    def __init__(self, box):
        self.box = box

    def split_for(self, v, boundary):
        """Split so that v < boundary on one side and v >= boundary on the
        other (v's range straddles the boundary)."""
        syms = [s for s in v.t if self.box[s][0] < self.box[s][1]]
        if not syms:
            raise Unsupported("cannot split a constant")
        if len(syms) == 1 and len(v.t) == 1:
            s = syms[0]
            a = v.t[s]
            # a*x + c >= boundary
            num = boundary - v.c
            if a > 0:
                x = -((-num) // a)          # ceil(num / a)
            else:
                x = num // a + 1            # first x where a*x + c < boundary
            lo, hi = self.box[s]
            x = max(lo + 1, min(hi, x))
            raise Split(s, x)
        # several symbols: bisect the one that moves the value most
        s = max(syms, key=lambda k: abs(v.t[k]) * (self.box[k][1] - self.box[k][0]))
        lo, hi = self.box[s]
        raise Split(s, (lo + hi + 1) // 2)

    def mod2k(self, v, k):
        if k == 0:
            return Aff.const(0)
        m = 1 << k
        r = Aff({s: a % m for s, a in v.t.items()}, v.c % m)
        lo, hi = r.rng(self.box)
        if lo // m == hi // m:
            return r.sub(Aff.const((lo // m) * m))
        self.split_for(r, (lo // m + 1) * m)

    def shr(self, v, k):
        lo, _ = v.rng(self.box)
        return v.sub(self.mod2k(v, k)).div_exact(1 << k)

    def and_const(self, v, mask):
        if mask == 0:
            return Aff.const(0)
        if mask == -1:
            return v
        if v.is_const():
            return Aff.const(v.c & mask)
        # length of the uniform run of low bits of the mask
        bit0 = mask & 1
        k = 0
        while ((mask >> k) & 1) == bit0 and k < 80:
            k += 1
        low = self.mod2k(v, k)
        high = v.sub(low).div_exact(1 << k)
        res_high = self.and_const(high, mask >> k).mul(1 << k)
        return res_high.add(low) if bit0 else res_high

    def or_const(self, v, c):
        return self.and_const(v, ~c).add(Aff.const(c))

    def bitor(self, a, b):
        if b.is_const():
            return self.or_const(a, b.c)
        if a.is_const():
            return self.or_const(b, a.c)
        for x, y in ((a, b), (b, a)):
            lo, hi = y.rng(self.box)
            if lo < 0:
                continue
            k = max(hi, 1).bit_length()
            if all(c % (1 << k) == 0 for c in list(x.t.values()) + [x.c]):
                return x.add(y)
        raise Unsupported("bitwise or of two non-constant values with overlapping bits")

    def bitand(self, a, b):
        if b.is_const():
            return self.and_const(a, b.c)
        if a.is_const():
            return self.and_const(b, a.c)
        raise Unsupported("bitwise and of two non-constant values")

    def wrap(self, v, tk):
        tr = type_range(tk)
        if tr is None:
            return v
        if tk == "bool":
            lo, hi = v.rng(self.box)
            if lo > 0 or hi < 0:
                return Aff.const(1)
            if lo == hi == 0:
                return Aff.const(0)
            self.split_for(v, 1 if lo == 0 else 0)
        w = tr[1] - tr[0] + 1
        lo, hi = v.rng(self.box)
        kl, kh = (lo - tr[0]) // w, (hi - tr[0]) // w
        if kl == kh:
            return v.sub(Aff.const(kl * w))
        self.split_for(v, tr[0] + (kl + 1) * w)

    def compare(self, a, op, b):
        d = a.sub(b)
        lo, hi = d.rng(self.box)
        if op == "<":
            if hi < 0:
                return True
            if lo >= 0:
                return False
            self.split_for(d, 0)
        if op == "<=":
            if hi <= 0:
                return True
            if lo > 0:
                return False
            self.split_for(d, 1)
        if op == ">":
            return not self.compare(a, "<=", b)
        if op == ">=":
            return not self.compare(a, "<", b)
        if op == "==":
            if lo == hi == 0:
                return True
            if lo > 0 or hi < 0:
                return False
            self.split_for(d, 0 if lo < 0 else 1)
        if op == "!=":
            return not self.compare(a, "==", b)
        raise Unsupported("comparison " + op)


class Ptr(object):
    __slots__ = ("arr", "idx")

    def __init__(self, arr, idx):
        self.arr, self.idx = arr, idx


class Obj(object):
    __slots__ = ("name",)

    def __init__(self, name):
        self.name = name


class Ref(object):
    """a reference parameter bound to an lvalue of the caller"""
    __slots__ = ("lv", "fr")

    def __init__(self, lv, fr):
        self.lv, self.fr = lv, fr


class Sink(object):
    pass


SINK = Sink()


class Machine(object):
    """Interprets statements of one routine on one box."""

    def __init__(self, prog, box, hooks=None, sink_append=("append",), max_unroll=16, max_depth=6):
        self.prog = prog
        self.dom = Dom(box)
        self.out = []          # appended bytes (Aff, already wrapped to char)
        self.hooks = hooks or {}
        self.sink_append = sink_append
        self.max_unroll = max_unroll
        self.max_depth = max_depth
        self.nobj = 0
        self.lits = {}
        self.garrays = {}       # arrays handed in by the rule (e.g. the bytes a pointer parameter designates)

    # ---- frames ----------------------------------------------------------
    class Frame(object):
        def __init__(self, fn, this=None):
            self.fn = fn
            self.env = {}
            self.arrays = {}
            self.this = this

    def truth(self, v):
        if isinstance(v, bool):
            return v
        if isinstance(v, Aff):
            return self.dom.compare(v, "!=", Aff.const(0))
        if isinstance(v, Ptr):
            return True
        raise Unsupported("truth value of %r" % (v,))

    def as_aff(self, v):
        if isinstance(v, bool):
            return Aff.const(1 if v else 0)
        if isinstance(v, Aff):
            return v
        raise Unsupported("integer value expected, got %r" % (v,))

    # ---- expressions -----------------------------------------------------
    def lvalue(self, fr, i):
        """('var', key) | ('cell', arr, idx) | ('field', obj, name)"""
        fn = fr.fn
        st = fn.s(i)
        k = st["k"]
        if k in ("ParenExpr",):
            return self.lvalue(fr, st["c"][0])
        if k == "DeclRefExpr":
            v_ = fr.env.get(st["ref"]["d"])
            if isinstance(v_, Ref):
                return ("ref", v_)
            return ("var", st["ref"]["d"])
        if k == "MemberExpr":
            b = fn.s(fn.strip(st["c"][0], casts=True)) if st["c"] else {"k": "CXXThisExpr"}
            if b["k"] == "CXXThisExpr":
                if fr.this is None:
                    raise Unsupported("member of an untracked object: " + st.get("m", "?"))
                return ("field", fr.this, st["m"])
            if b["k"] == "DeclRefExpr":
                o = fr.env.get(b["ref"]["d"])
                if isinstance(o, Obj):
                    return ("field", o.name, st["m"])
            raise Unsupported("member access " + fn.text(i))
        if k == "UnaryOperator" and st["op"] == "*":
            p = self.ev(fr, st["c"][0])
            if not isinstance(p, Ptr):
                raise Unsupported("dereference of a non-pointer")
            return ("cell", p.arr, p.idx)
        if k == "ArraySubscriptExpr":
            b = self.ev(fr, st["c"][0])
            ix = self.as_aff(self.ev(fr, st["c"][1]))
            if not isinstance(b, Ptr) or not ix.is_const():
                raise Unsupported("array subscript")
            return ("cell", b.arr, b.idx + ix.c)
        if k in P.TRANSPARENT:
            return self.lvalue(fr, st["c"][0])
        raise Unsupported("lvalue " + k)

    def load(self, fr, lv, where=""):
        if lv[0] == "ref":
            return self.load(lv[1].fr, lv[1].lv, where)
        if lv[0] == "var":
            if lv[1] not in fr.env:
                raise Unsupported("read of an unknown variable at %s" % where)
            return fr.env[lv[1]]
        if lv[0] == "field":
            key = ("fld", lv[1], lv[2])
            if key not in self.fields:
                raise Unsupported("read of an unknown field %s.%s" % (lv[1], lv[2]))
            return self.fields[key]
        arr = fr.arrays.get(lv[1])
        if arr is None:
            arr = self.lits.get(lv[1])
        if arr is None:
            arr = self.garrays.get(lv[1])
        if arr is None:
            raise Unsupported("unknown array")
        if not (0 <= lv[2] < len(arr)):
            raise Hazard("access outside %s[%d] (index %d) at %s" % (str(lv[1])[:12], len(arr), lv[2], where))
        if arr[lv[2]] is None:
            raise Hazard("read of %s[%d], which was never written, at %s" % (lv[1], lv[2], where))
        return arr[lv[2]]

    def store(self, fr, lv, v, where=""):
        if lv[0] == "ref":
            return self.store(lv[1].fr, lv[1].lv, v, where)
        if lv[0] == "var":
            fr.env[lv[1]] = v
        elif lv[0] == "field":
            self.fields[("fld", lv[1], lv[2])] = v
        else:
            arr = fr.arrays.get(lv[1])
            if arr is None:
                arr = self.garrays.get(lv[1])
            if arr is None:
                raise Unsupported("unknown array")
            if not (0 <= lv[2] < len(arr)):
                raise Hazard("write outside %s[%d] (index %d) at %s" % (lv[1], len(arr), lv[2], where))
            arr[lv[2]] = v

    fields = None

    def ev(self, fr, i):
        fn = fr.fn
        st = fn.s(i)
        k = st["k"]
        ch = [c for c in st["c"] if c is not None and c >= 0]
        if k in ("ParenExpr", "ExprWithCleanups", "MaterializeTemporaryExpr", "CXXBindTemporaryExpr", "ConstantExpr", "SubstNonTypeTemplateParmExpr"):
            return self.ev(fr, ch[0])
        if k == "ImplicitCastExpr" or k in P.EXPLICIT_CASTS:
            ck = st.get("ck")
            if ck == "ArrayToPointerDecay":
                b = fn.s(fn.strip(ch[0], casts=True))
                if b["k"] == "DeclRefExpr" and b["ref"]["d"] in fr.arrays:
                    return Ptr(b["ref"]["d"], 0)
                if b["k"] == "StringLiteral":
                    return self.ev(fr, ch[0])
                raise Unsupported("decay of an untracked array")
            if ck in ("LValueToRValue",):
                inner = fn.s(fn.strip(ch[0], casts=False))
                while inner["k"] == "ParenExpr":
                    inner = fn.s(inner["c"][0])
                if (inner["k"] == "UnaryOperator" and inner["op"] in ("++", "--")) or \
                        (inner["k"] in ("BinaryOperator", "CompoundAssignOperator") and inner["op"].endswith("=") and
                         inner["op"] not in ("==", "!=", "<=", ">=")):
                    return self.ev(fr, ch[0])      # these are lvalues in C++: their value is the stored one
                lv = self.lvalue(fr, ch[0])
                return self.load(fr, lv, fn.loc(i))
            if ck in ("NoOp", "FunctionToPointerDecay", "ConstructorConversion", "UserDefinedConversion", "DerivedToBase"):
                return self.ev(fr, ch[0])
            v = self.ev(fr, ch[0])
            if ck in ("IntegralCast", "IntegralToBoolean"):
                if ck == "IntegralToBoolean":
                    return self.truth(v)
                return self.dom.wrap(self.as_aff(v), st.get("tk"))
            if ck == "PointerToBoolean":
                return True
            raise Unsupported("cast " + str(ck))
        if "cv" in st and k not in ("DeclRefExpr",):
            return Aff.const(int(st["cv"]))
        if k == "StringLiteral":
            name = "lit@%s:%d" % (fn.key[-40:], i)
            if name not in self.lits:
                def s8(v):
                    return v - 256 if v > 127 else v
                bs = list(st.get("bytes", []))
                if not bs or bs[-1] != 0:
                    bs.append(0)        # the terminator of the literal
                self.lits[name] = [Aff.const(s8(b_)) for b_ in bs]
            return Ptr(name, 0)
        if k in ("IntegerLiteral", "CharacterLiteral"):
            return Aff.const(int(st["v"]))
        if k == "CXXBoolLiteralExpr":
            return bool(st["v"])
        if k == "DeclRefExpr":
            r = st["ref"]
            if r["k"] == "enumerator" and "cv" in st:
                return Aff.const(int(st["cv"]))
            if r["d"] in fr.env:
                v_ = fr.env[r["d"]]
                if isinstance(v_, Ref):
                    return self.load(v_.fr, v_.lv, fn.loc(i))
                return v_
            if r["d"] in fr.arrays:
                return Ptr(r["d"], 0)
            c = fn.const(i)
            if c is not None:
                return Aff.const(c)
            if r["k"] == "func":
                return ("func", r.get("key"))
            raise Unsupported("unknown variable %s at %s" % (r["n"], fn.loc(i)))
        if k == "MemberExpr":
            lv = self.lvalue(fr, i)
            return self.load(fr, lv, fn.loc(i))
        if k == "CXXThisExpr":
            return Obj(fr.this) if fr.this else None
        if k == "UnaryOperator":
            op = st["op"]
            if op in ("++", "--"):
                lv = self.lvalue(fr, ch[0])
                old = self.load(fr, lv, fn.loc(i))
                d = 1 if op == "++" else -1
                if isinstance(old, Ptr):
                    new = Ptr(old.arr, old.idx + d)
                else:
                    new = self.dom.wrap(self.as_aff(old).add(Aff.const(d)), fn.s(ch[0]).get("tk"))
                self.store(fr, lv, new, fn.loc(i))
                return old if st.get("postfix") else new
            if op == "*":
                return self.load(fr, self.lvalue(fr, i), fn.loc(i))
            if op == "&":
                inner = ch[0]
                while fn.s(inner)["k"] == "ParenExpr":
                    inner = fn.s(inner)["c"][0]
                if fn.s(inner)["k"] == "ArraySubscriptExpr":
                    lv = self.lvalue(fr, inner)
                    return Ptr(lv[1], lv[2])
                raise Unsupported("address-of")
            v = self.ev(fr, ch[0])
            if op == "!":
                return not self.truth(v)
            a = self.as_aff(v)
            if op == "-":
                return self.dom.wrap(a.neg(), st.get("tk"))
            if op == "+":
                return a
            if op == "~":
                return self.dom.wrap(a.neg().sub(Aff.const(1)), st.get("tk"))
            raise Unsupported("unary " + op)
        if k in ("BinaryOperator", "CompoundAssignOperator"):
            op = st["op"]
            if op == "=":
                v = self.ev(fr, ch[1])
                lv = self.lvalue(fr, ch[0])
                self.store(fr, lv, v, fn.loc(i))
                return v
            if op == ",":
                self.ev(fr, ch[0])
                return self.ev(fr, ch[1])
            if op == "&&":
                return self.truth(self.ev(fr, ch[0])) and self.truth(self.ev(fr, ch[1]))
            if op == "||":
                return self.truth(self.ev(fr, ch[0])) or self.truth(self.ev(fr, ch[1]))
            if k == "CompoundAssignOperator":
                lv = self.lvalue(fr, ch[0])
                a = self.load(fr, lv, fn.loc(i))
                b = self.ev(fr, ch[1])
                r = self.binop(op[:-1], a, b, st.get("tk"))
                r = self.dom.wrap(self.as_aff(r), fn.s(ch[0]).get("tk")) if isinstance(r, Aff) else r
                self.store(fr, lv, r, fn.loc(i))
                return r
            a = self.ev(fr, ch[0])
            b = self.ev(fr, ch[1])
            return self.binop(op, a, b, st.get("tk"))
        if k == "ConditionalOperator":
            return self.ev(fr, ch[1]) if self.truth(self.ev(fr, ch[0])) else self.ev(fr, ch[2])
        if k in P.CALL_KINDS:
            return self.call(fr, i)
        if k == "CXXConstructExpr" or k == "CXXTemporaryObjectExpr":
            return self.call(fr, i)
        raise Unsupported("expression %s at %s" % (k, fn.loc(i)))

    def binop(self, op, a, b, tk):
        if isinstance(a, Ptr) or isinstance(b, Ptr):
            if op in ("+", "-") and isinstance(a, Ptr) and isinstance(b, Aff) and b.is_const():
                return Ptr(a.arr, a.idx + (b.c if op == "+" else -b.c))
            if op in ("==", "!=", "<", ">", "<=", ">=") and isinstance(a, Ptr) and isinstance(b, Ptr) and a.arr == b.arr:
                return {"==": a.idx == b.idx, "!=": a.idx != b.idx, "<": a.idx < b.idx, ">": a.idx > b.idx,
                        "<=": a.idx <= b.idx, ">=": a.idx >= b.idx}[op]
            if op == "-" and isinstance(a, Ptr) and isinstance(b, Ptr) and a.arr == b.arr:
                return Aff.const(a.idx - b.idx)
            raise Unsupported("pointer arithmetic " + op)
        a, b = self.as_aff(a), self.as_aff(b)
        d = self.dom
        if op in ("<", ">", "<=", ">=", "==", "!="):
            return d.compare(a, op, b)
        if op == "+":
            r = a.add(b)
        elif op == "-":
            r = a.sub(b)
        elif op == "*":
            if b.is_const():
                r = a.mul(b.c)
            elif a.is_const():
                r = b.mul(a.c)
            else:
                raise Unsupported("product of two non-constant values")
        elif op == "&":
            r = d.bitand(a, b)
        elif op == "|":
            r = d.bitor(a, b)
        elif op == "^":
            if b.is_const() and a.is_const():
                r = Aff.const(a.c ^ b.c)
            else:
                raise Unsupported("xor")
        elif op == "<<":
            if not b.is_const():
                raise Unsupported("shift by a non-constant")
            r = a.mul(1 << b.c)
        elif op == ">>":
            if not b.is_const():
                raise Unsupported("shift by a non-constant")
            # shr is floor division by 2^k: for a negative left operand that is the
            # arithmetic shift every supported compiler performs (implementation-defined
            # before C++20, mandated since) -- trusted assumption, see DESIGN 0.3
            r = d.shr(a, b.c)
        elif op in ("/", "%"):
            if a.is_const() and b.is_const() and b.c:
                q = abs(a.c) // abs(b.c) * (1 if (a.c >= 0) == (b.c >= 0) else -1)
                r = Aff.const(q if op == "/" else a.c - q * b.c)
            else:
                raise Unsupported("division")
        else:
            raise Unsupported("operator " + op)
        return d.wrap(r, tk) if type_range(tk) else r

    # ---- calls -------------------------------------------------------------
    def call(self, fr, i, depth=0):
        fn = fr.fn
        st = fn.s(i)
        cal = st.get("callee", {})
        q = cal.get("q", "")
        nm = q.split("::")[-1]
        args = st.get("args", [])
        if nm in self.hooks:
            return self.hooks[nm](self, fr, i, st)
        # append on the sink
        if nm in self.sink_append and "obj" in st:
            o = None
            try:
                o = self.ev(fr, st["obj"])
            except Unsupported:
                o = SINK if "tringBuilder" in fn.text(st["obj"]) or "str" in fn.text(st["obj"]) else None
            if o is SINK:
                a0 = self.ev(fr, args[0])
                if isinstance(a0, Ptr) and len(args) == 2:
                    # append(pointer, count): the cells in order
                    n = self.as_aff(self.ev(fr, args[1]))
                    if not n.is_const():
                        raise Unsupported("append(pointer, n) with a non-constant count")
                    for k_ in range(n.c):
                        self.out.append(self.as_aff(self.load(fr, ("cell", a0.arr, a0.idx + k_), fn.loc(i))))
                    return None
                v = self.as_aff(a0)
                self.out.append(v)
                return None
        callee = self.prog.fns.get(cal.get("key"))
        if callee is None:
            raise Unsupported("call to %s, whose body is not known" % q)
        if getattr(self, "depth", 0) >= self.max_depth:
            raise Unsupported("inlining depth exceeded at " + q)
        fr2 = Machine.Frame(callee)
        if "obj" in st and not callee.d.get("static"):
            o = self.ev(fr, st["obj"])
            if isinstance(o, Obj):
                fr2.this = o.name
            elif o is SINK:
                raise Unsupported("method %s of the sink" % q)
        if st["k"] in ("CXXConstructExpr", "CXXTemporaryObjectExpr"):
            raise Unsupported("construction of a temporary " + q)
        for prm, a in zip(callee.params, args):
            if "&" in prm["t"] and not prm["t"].startswith("const ") and not type_range(prm.get("tk")):
                # object passed by reference: the sink or a tracked object
                try:
                    v = self.ev(fr, a)
                except Unsupported:
                    v = SINK
                fr2.env[prm["d"]] = v
                continue
            if "&" in prm["t"] and not prm["t"].lstrip().startswith("const ") and type_range(prm.get("tk")):
                # a mutable reference to an integer: alias the caller's lvalue
                try:
                    lv_ = self.lvalue(fr, a)
                    fr2.env[prm["d"]] = lv_[1] if lv_[0] == "ref" else Ref(lv_, fr)
                    continue
                except Unsupported:
                    pass
            v = self.ev(fr, a)
            if isinstance(v, Aff) and type_range(prm.get("tk")):
                v = self.dom.wrap(v, prm["tk"])
            fr2.env[prm["d"]] = v
        return self.run_fn(fr2)

    def run_fn(self, fr):
        self.depth = getattr(self, "depth", 0) + 1
        try:
            try:
                self.stmt(fr, fr.fn.d.get("body"))
            except _Return as r:
                v = r.v
                if isinstance(v, Aff) and type_range(fr.fn.d.get("retk")):
                    v = self.dom.wrap(v, fr.fn.d["retk"])
                return v
            return None
        finally:
            self.depth -= 1

    # ---- statements ----------------------------------------------------------
    def stmt(self, fr, i):
        fn = fr.fn
        if i is None or i < 0:
            return
        st = fn.s(i)
        k = st["k"]
        if k == "CompoundStmt":
            for c in st["c"]:
                self.stmt(fr, c)
        elif k == "DeclStmt":
            for d in st["decls"]:
                if d.get("extent") is not None and "init" not in d:
                    fr.arrays[d["d"]] = [None] * int(d["extent"])
                elif "init" in d:
                    ini = fn.s(d["init"])
                    if ini["k"] in ("CXXConstructExpr", "CXXTemporaryObjectExpr") and d.get("tr"):
                        self.construct(fr, d, d["init"])
                    else:
                        v = self.ev(fr, d["init"])
                        if isinstance(v, Aff) and type_range(d.get("tk")):
                            v = self.dom.wrap(v, d["tk"])
                        fr.env[d["d"]] = v
                elif d.get("tr"):
                    self.construct(fr, d, None)
                else:
                    fr.env[d["d"]] = None
        elif k == "IfStmt":
            if self.truth(self.ev(fr, st["cond"])):
                self.stmt(fr, st.get("then"))
            else:
                self.stmt(fr, st.get("else"))
        elif k in ("WhileStmt", "ForStmt", "DoStmt"):
            n = 0
            if k == "ForStmt" and st.get("init") is not None:
                self.stmt(fr, st["init"])
            first = True
            while True:
                if not (k == "DoStmt" and first):
                    if st.get("cond") is not None and not self.truth(self.ev(fr, st["cond"])):
                        break
                first = False
                n += 1
                if n > self.max_unroll:
                    raise Hazard("loop at %s does not terminate within %d iterations" % (fn.loc(i), self.max_unroll))
                try:
                    self.stmt(fr, st.get("body"))
                except _Break:
                    break
                except _Continue:
                    pass
                if k == "ForStmt" and st.get("inc") is not None:
                    self.ev(fr, st["inc"])
        elif k == "ReturnStmt":
            ch = [c for c in st["c"] if c is not None and c >= 0]
            raise _Return(self.ev(fr, ch[0]) if ch else None)
        elif k == "BreakStmt":
            raise _Break()
        elif k == "ContinueStmt":
            raise _Continue()
        elif k == "NullStmt":
            pass
        else:
            self.ev(fr, i)

    def construct(self, fr, d, init):
        """Local object of a known record: run its constructor's member
        initialisers; fields live in self.fields."""
        self.nobj += 1
        name = "%s#%d" % (d["n"], self.nobj)
        fr.env[d["d"]] = Obj(name)
        ctor = None
        if init is not None:
            ctor = self.prog.fns.get(fr.fn.s(init).get("callee", {}).get("key"))
        if ctor is None:
            raise Unsupported("constructor of %s not known" % d.get("tr"))
        fr2 = Machine.Frame(ctor, this=name)
        for prm, a in zip(ctor.params, fr.fn.s(init).get("args", [])):
            fr2.env[prm["d"]] = self.ev(fr, a)
        for ini in ctor.d.get("inits", []):
            if ini.get("m") and ini.get("m") != "(base)" and ini.get("e") is not None and ini["e"] >= 0:
                self.fields[("fld", name, ini["m"])] = self.ev(fr2, ini["e"])
        self.run_fn(fr2)


def cover(box0, body, max_pieces=400000):
    """Run body(box) over a partition of box0 refined on demand.
    body returns a result or raises Split.  Yields (box, result)."""
    work = [dict(box0)]
    n = 0
    while work:
        box = work.pop()
        n += 1
        if n > max_pieces:
            raise Unsupported("more than %d pieces" % max_pieces)
        try:
            res = body(box)
        except Split as s:
            lo, hi = box[s.sym]
            at = s.at
            if not (lo < at <= hi):
                raise Unsupported("degenerate split of %s=[%d,%d] at %d" % (s.sym, lo, hi, at))
            b1, b2 = dict(box), dict(box)
            b1[s.sym] = (lo, at - 1)
            b2[s.sym] = (at, hi)
            work.append(b2)
            work.append(b1)
            continue
        yield box, res
