"""Program model over the ajx dump: functions, statements, CFG, dominators."""
import os
from . import facts

TRANSPARENT = {
    "ParenExpr", "ImplicitCastExpr", "ExprWithCleanups",
    "MaterializeTemporaryExpr", "CXXBindTemporaryExpr", "ConstantExpr",
    "SubstNonTypeTemplateParmExpr", "CXXDefaultArgExpr",
}
EXPLICIT_CASTS = {
    "CStyleCastExpr", "CXXStaticCastExpr", "CXXFunctionalCastExpr",
    "CXXReinterpretCastExpr", "CXXConstCastExpr",
}
CALL_KINDS = {
    "CallExpr", "CXXMemberCallExpr", "CXXOperatorCallExpr",
    "CXXConstructExpr", "CXXTemporaryObjectExpr", "UserDefinedLiteral",
}


def relfile(f):
    if f.startswith(facts.SRCAJ):
        return f[len(facts.SRCAJ):]
    if f.startswith(facts.SRC + "/"):
        return f[len(facts.SRC) + 1:]
    return f


class Fn(object):
    __slots__ = ("d", "key", "q", "name", "cls", "file", "line", "stmts",
                 "_parent", "_blocks", "_pos", "_dom", "_preds", "prog",
                 "_rpo")

    def __init__(self, d, prog=None):
        self.d = d
        self.key = d["key"]
        self.q = d["q"]
        self.name = d["name"]
        self.cls = d.get("cls", "")
        self.file = relfile(d["file"])
        self.line = d["line"]
        self.stmts = d["stmts"]
        self._parent = None
        self._blocks = None
        self._pos = None
        self._dom = None
        self._preds = None
        self._rpo = None
        self.prog = prog
        if d.get("cfg"):
            for b in d["cfg"]["blocks"]:
                if b.get("noreturn") and b["succ"]:
                    b["succ"] = []

    # ---- naming -------------------------------------------------------
    @property
    def short(self):
        """ClassName::method or function, without namespaces."""
        q = self.q
        for p in ("ArduinoJson::detail::", "ArduinoJson::"):
            if q.startswith(p):
                return q[len(p):]
        return q

    @property
    def where(self):
        return "%s:%d" % (self.file, self.line)

    def loc(self, sid):
        # statements of an out-of-line member definition live in the file of the body
        return "%s:%d" % (relfile(self.d["bfile"]) if self.d.get("bfile") else self.file, self.stmts[sid]["l"])

    @property
    def params(self):
        return self.d["params"]

    # ---- statements ---------------------------------------------------
    def s(self, i):
        return self.stmts[i]

    def walk(self, root=None):
        """Pre-order ids below root (default body + ctor initialisers)."""
        roots = []
        if root is None:
            for ini in self.d.get("inits", []):
                if ini["e"] is not None and ini["e"] >= 0:
                    roots.append(ini["e"])
            if self.d.get("body", -1) is not None and self.d.get("body", -1) >= 0:
                roots.append(self.d["body"])
        else:
            roots = [root]
        stack = list(reversed(roots))
        while stack:
            i = stack.pop()
            if i is None or i < 0:
                continue
            yield i
            st = self.stmts[i]
            stack.extend(reversed([c for c in st["c"] if c is not None and c >= 0]))

    def parents(self):
        if self._parent is None:
            par = {}
            for i, st in enumerate(self.stmts):
                if st is None:
                    continue
                for c in st["c"]:
                    if c is not None and c >= 0:
                        par[c] = i
            self._parent = par
        return self._parent

    def parent(self, i):
        return self.parents().get(i)

    def ancestors(self, i):
        p = self.parents()
        while i in p:
            i = p[i]
            yield i

    def strip(self, i, casts=False):
        """Skip parentheses / implicit nodes (and explicit casts if asked)."""
        while i is not None and i >= 0:
            st = self.stmts[i]
            k = st["k"]
            if k in TRANSPARENT or (casts and k in EXPLICIT_CASTS):
                ch = [c for c in st["c"] if c is not None and c >= 0]
                if not ch:
                    return i
                i = ch[0]
            else:
                return i
        return i

    def const(self, i):
        """Integer value of expression i if clang folded it (looks through
        parentheses / implicit nodes / casts from the outside in)."""
        while i is not None and i >= 0:
            st = self.stmts[i]
            if "cv" in st:
                return int(st["cv"])
            if st["k"] == "IntegerLiteral":
                return int(st["v"])
            if st["k"] in TRANSPARENT or st["k"] in EXPLICIT_CASTS:
                ch = [c for c in st["c"] if c is not None and c >= 0]
                if not ch:
                    return None
                i = ch[0]
                continue
            if st["k"] == "DeclRefExpr" and st["ref"]["k"] == "global" and self.prog is not None:
                for g in self.prog.globals:
                    if g["q"] == st["ref"].get("q") and g.get("value") is not None and not g.get("dependent"):
                        return int(g["value"])
            return None
        return None

    def calls(self, root=None):
        for i in self.walk(root):
            st = self.stmts[i]
            if st["k"] in CALL_KINDS and "callee" in st:
                yield i, st

    def callee_q(self, i):
        st = self.stmts[i]
        c = st.get("callee")
        return c["q"] if c else None

    def is_call_to(self, i, *names):
        """names are suffixes of the bare qualified callee name."""
        st = self.stmts[i]
        if st["k"] not in CALL_KINDS or "callee" not in st:
            return False
        q = st["callee"]["q"]
        for n in names:
            if q == n or q.endswith("::" + n):
                return True
        return False

    def text(self, i, depth=6):
        """A compact rendering of an expression for reports."""
        if i is None or i < 0:
            return "?"
        st = self.stmts[i]
        k = st["k"]
        if depth <= 0:
            return "…"
        ch = [c for c in st["c"] if c is not None and c >= 0]
        if k in TRANSPARENT:
            return self.text(ch[0], depth) if ch else k
        if k == "DeclRefExpr":
            return st["ref"]["n"]
        if k == "MemberExpr":
            base = self.text(ch[0], depth - 1) if ch else "this"
            return "%s%s%s" % (base, "->" if st.get("arrow") else ".", st["m"])
        if k == "CXXThisExpr":
            return "this"
        if k in ("IntegerLiteral", "CXXBoolLiteralExpr", "FloatingLiteral"):
            return str(st.get("v"))
        if k == "CharacterLiteral":
            v = st.get("v", 0)
            return repr(chr(v)) if 32 <= v < 127 else "'\\x%02x'" % v
        if k == "StringLiteral":
            return '"' + "".join(chr(b) if 32 <= b < 127 else "\\x%02x" % b
                                 for b in st.get("bytes", [])) + '"'
        if k == "BinaryOperator" or k == "CompoundAssignOperator":
            return "(%s %s %s)" % (self.text(ch[0], depth - 1), st["op"],
                                   self.text(ch[1], depth - 1))
        if k == "UnaryOperator":
            if st.get("postfix"):
                return "%s%s" % (self.text(ch[0], depth - 1), st["op"])
            return "%s%s" % (st["op"], self.text(ch[0], depth - 1))
        if k in CALL_KINDS:
            c = st.get("callee", {}).get("q", "?").split("::")[-1]
            args = ", ".join(self.text(a, depth - 1) for a in st.get("args", []))
            if "obj" in st:
                return "%s.%s(%s)" % (self.text(st["obj"], depth - 1), c, args)
            return "%s(%s)" % (c, args)
        if k in EXPLICIT_CASTS:
            return "(%s)%s" % (st.get("written", st.get("t")),
                               self.text(ch[0], depth - 1) if ch else "")
        if k == "ConditionalOperator":
            return "(%s ? %s : %s)" % tuple(self.text(c, depth - 1) for c in ch[:3])
        if k == "ArraySubscriptExpr":
            return "%s[%s]" % (self.text(ch[0], depth - 1), self.text(ch[1], depth - 1))
        if k == "ReturnStmt":
            return "return " + (self.text(ch[0], depth - 1) if ch else "")
        if k == "CXXNullPtrLiteralExpr":
            return "nullptr"
        if "cv" in st:
            return st["cv"]
        return k

    # ---- CFG ----------------------------------------------------------
    @property
    def cfg(self):
        return self.d.get("cfg")

    def blocks(self):
        if self._blocks is None:
            for b in self.cfg["blocks"]:
                # a block ending in a noreturn call (assertion failure, abort)
                # does not continue to the exit: no path rule may count it
                if b.get("noreturn") and b["succ"]:
                    b["succ"] = []
            self._blocks = {b["id"]: b for b in self.cfg["blocks"]}
        return self._blocks

    def preds(self):
        if self._preds is None:
            p = {b: [] for b in self.blocks()}
            for b in self.cfg["blocks"]:
                for s in b["succ"]:
                    if s >= 0:
                        p[s].append(b["id"])
            self._preds = p
        return self._preds

    def pos(self):
        """stmt id -> (block id, index in block)."""
        if self._pos is None:
            pos = {}
            for b in self.cfg["blocks"]:
                for k, e in enumerate(b["el"]):
                    if isinstance(e, int) and e >= 0:
                        pos.setdefault(e, (b["id"], k))
            self._pos = pos
        return self._pos

    def block_of(self, sid):
        """Block containing stmt sid (or the nearest enclosing element)."""
        pos = self.pos()
        i = sid
        if i in pos:
            return pos[i]
        # sub-expressions of terminators/conditions are elements too with
        # setAllAlwaysAdd; for statements (IfStmt etc.) climb to children.
        for a in self.ancestors(sid):
            if a in pos:
                return pos[a]
        return None

    def rpo(self):
        if self._rpo is None:
            blocks = self.blocks()
            seen = set()
            order = []
            stack = [(self.cfg["entry"], iter(blocks[self.cfg["entry"]]["succ"]))]
            seen.add(self.cfg["entry"])
            while stack:
                b, it = stack[-1]
                adv = False
                for s in it:
                    if s >= 0 and s not in seen:
                        seen.add(s)
                        stack.append((s, iter(blocks[s]["succ"])))
                        adv = True
                        break
                if not adv:
                    order.append(b)
                    stack.pop()
            order.reverse()
            self._rpo = order
        return self._rpo

    def dom(self):
        """Dominator sets {block: set(blocks that dominate it)} over blocks
        reachable from entry."""
        if self._dom is None:
            order = self.rpo()
            preds = self.preds()
            entry = self.cfg["entry"]
            allb = set(order)
            dom = {b: set(allb) for b in order}
            dom[entry] = {entry}
            changed = True
            while changed:
                changed = False
                for b in order:
                    if b == entry:
                        continue
                    ps = [p for p in preds[b] if p in allb]
                    if not ps:
                        continue
                    new = set.intersection(*[dom[p] for p in ps])
                    new = new | {b}
                    if new != dom[b]:
                        dom[b] = new
                        changed = True
            self._dom = dom
        return self._dom

    def reachable_blocks(self):
        return set(self.rpo())

    def edge_dominates(self, a, b, target):
        """Does CFG edge a->b dominate block `target`?  (Every path from
        entry to target uses the edge.)"""
        dom = self.dom()
        if target not in dom or b not in dom[target]:
            return False
        reach = self.reachable_blocks()
        for p in self.preds()[b]:
            if p == a or p not in reach:
                continue
            # other predecessors must be dominated by b (back edges)
            if b not in dom.get(p, ()):
                return False
        return True

    def stmt_dominates(self, a, b):
        """Element a is executed before element b on every path to b."""
        pa, pb = self.block_of(a), self.block_of(b)
        if pa is None or pb is None:
            return False
        if pa[0] == pb[0]:
            return pa[1] <= pb[1]
        return pa[0] in self.dom().get(pb[0], ())

    def branch_conditions(self):
        """Yield (block, cond stmt id, [succ...]) for 2-way branches."""
        for b in self.cfg["blocks"]:
            if "cond" in b and len(b["succ"]) == 2 and b.get("termk") != "SwitchStmt":
                yield b, b["cond"], b["succ"]

    def guards_of(self, sid):
        """All (cond id, polarity) whose branch edge dominates stmt sid."""
        pb = self.block_of(sid)
        if pb is None:
            return []
        out = []
        for b, cond, succ in self.branch_conditions():
            if succ[0] == succ[1]:
                continue
            for pol, s in ((True, succ[0]), (False, succ[1])):
                if s >= 0 and self.edge_dominates(b["id"], s, pb[0]):
                    out.append((cond, pol))
                    self._split_logical(cond, pol, out)
        return out

    def _split_logical(self, cond, pol, out, depth=0):
        """(A && B) true => A true, B true; (A || B) false => both false;
        !X flips.  The clang CFG puts the whole expression on the last block
        of a short-circuit condition."""
        if depth > 6:
            return
        i = self.strip(cond, casts=True)
        st = self.stmts[i]
        if st["k"] == "UnaryOperator" and st["op"] == "!":
            out.append((st["c"][0], not pol))
            self._split_logical(st["c"][0], not pol, out, depth + 1)
        elif st["k"] == "BinaryOperator" and ((st["op"] == "&&" and pol) or (st["op"] == "||" and not pol)):
            for c in st["c"]:
                out.append((c, pol))
                self._split_logical(c, pol, out, depth + 1)

    def reach_from(self, start_blocks, avoid=()):
        seen = set()
        stack = [b for b in start_blocks if b not in avoid]
        blocks = self.blocks()
        while stack:
            b = stack.pop()
            if b in seen or b < 0:
                continue
            seen.add(b)
            for s in blocks[b]["succ"]:
                if s >= 0 and s not in seen and s not in avoid:
                    stack.append(s)
        return seen


class Program(object):
    def __init__(self, d):
        self.d = d
        self.config = d.get("config", "?")
        self.flags = d.get("flags", [])
        self.fns = {}
        for f in d["functions"]:
            fn = Fn(f, self)
            self.fns[fn.key] = fn
        self.by_q = {}
        for fn in self.fns.values():
            self.by_q.setdefault(fn.q, []).append(fn)
        self.records = d["records"]
        self.globals = d["globals"]
        self.enums = d["enums"]
        self._cg = None

    def q(self, *suffixes):
        """Functions whose bare qualified name ends with one of suffixes."""
        out = []
        for name, fl in self.by_q.items():
            for s in suffixes:
                if name == s or name.endswith("::" + s):
                    out.extend(fl)
                    break
        return sorted(out, key=lambda f: f.key)

    def record(self, suffix):
        return [r for r in self.records
                if r["q"] == suffix or r["q"].endswith("::" + suffix)]

    def enum(self, suffix):
        return [e for e in self.enums
                if e["q"] == suffix or e["q"].endswith("::" + suffix)]

    def enum_value(self, name):
        """Value of an enumerator by (suffix of) qualified name."""
        for e in self.enums:
            for c in e["consts"]:
                if c["n"] == name:
                    return int(c["v"])
        return None

    # ---- call graph ---------------------------------------------------
    def callgraph(self):
        """key -> set of callee keys (only callees whose body we have),
        plus ext: key -> set of callee bare names without body."""
        if self._cg is None:
            cg = {}
            ext = {}
            for key, fn in self.fns.items():
                out = set()
                ex = set()
                for i, st in fn.calls():
                    c = st["callee"]
                    if c["key"] in self.fns:
                        out.add(c["key"])
                    else:
                        ex.add(c["q"])
                # implicit destructors in the CFG
                if fn.cfg:
                    for b in fn.cfg["blocks"]:
                        for e in b["el"]:
                            if isinstance(e, dict) and e.get("dtor"):
                                c = e["dtor"]
                                if c["key"] in self.fns:
                                    out.add(c["key"])
                                else:
                                    ex.add(c["q"])
                # references to functions (function pointers)
                for i in fn.walk():
                    st = fn.stmts[i]
                    if st["k"] == "DeclRefExpr" and st["ref"]["k"] == "func":
                        if st["ref"]["key"] in self.fns:
                            out.add(st["ref"]["key"])
                cg[key] = out
                ext[key] = ex
            self._cg = (cg, ext)
        return self._cg

    def reachable(self, roots):
        cg, _ = self.callgraph()
        seen = set()
        stack = list(roots)
        while stack:
            k = stack.pop()
            if k in seen:
                continue
            seen.add(k)
            stack.extend(cg.get(k, ()))
        return seen

    def find_path(self, root, targets):
        """Shortest call path root -> any target key (list of keys) or None."""
        cg, _ = self.callgraph()
        from collections import deque
        prev = {root: None}
        dq = deque([root])
        while dq:
            k = dq.popleft()
            if k in targets and k != root:
                path = []
                while k is not None:
                    path.append(k)
                    k = prev[k]
                return list(reversed(path))
            for c in cg.get(k, ()):
                if c not in prev:
                    prev[c] = k
                    dq.append(c)
        return None


def load_programs(config_names, log=None):
    paths = facts.extract(config_names, log=log)
    return {n: Program(facts.load(p)) for n, p in paths.items()}
