"""Finite-state abstraction of a character-scanning routine and its
conformance to a reference automaton (R-SCAN of DESIGN).

A scanning routine of the JSON reader looks at the input only through
current() (the character under the cursor) and move() (advance).  When every
use of such a character is an equality test against a constant (==, !=, a
case label) or against another such character, the routine cannot tell apart
two characters outside the set SIGMA of those constants: its behaviour is a
function of the *class* string of the input (each constant is a class, all
other characters form one class).  The abstraction is then exact, and finite:
a configuration is (CFG position, values of the locals, class under the
cursor).  We explore all reachable configurations for all class strings
(worklist with memo; expressions are folded with lib/absint's evaluator on
constants) in lock step with a hand-written reference automaton that says,
for each state and class, `consume`, `consume and stop with code`, or `stop
with code`.  A mismatch is reported with the class string that leads to it.

This is predicate abstraction + automata conformance over the syntax of the
current tree: no library code is compiled or run; the eligibility condition
(only equality tests on characters) is checked on the syntax tree and makes
the result hold for every input string, of any length.
"""
from lib import absint
from lib import prog as P

C = absint.C
UNK = absint.UNK


class Ineligible(Exception):
    pass


def char_consts(fn, extra=()):
    """Constants that characters are compared with in fn (case labels and
    ==/!= operands that fold), as ints."""
    out = set(extra)
    for i in fn.walk():
        st = fn.s(i)
        if st["k"] == "CaseStmt":
            out.add(int(st["lo"]))
            if "hi" in st and int(st["hi"]) != int(st["lo"]):
                raise Ineligible("case range at %s" % fn.loc(i))
        elif st["k"] == "BinaryOperator" and st["op"] in ("==", "!="):
            for c in st["c"]:
                v = fn.const(c)
                sc = fn.s(fn.strip(c, casts=True))
                if v is not None and sc["k"] in ("CharacterLiteral", "IntegerLiteral"):
                    out.add(int(v))
    return out


def check_eligible(fn, cursor=("current",), advance=("move",)):
    """Characters (values of current() and locals of type char) are used only
    in ==, !=, switch conditions, assignments between char locals."""
    chars = set()
    for i in fn.walk():
        st = fn.s(i)
        if st["k"] == "DeclStmt":
            for d in st["decls"]:
                if d.get("tk") in ("s8", "u8") and "char" in d.get("t", ""):
                    chars.add(d["d"])
    par = fn.parents()
    for i in fn.walk():
        st = fn.s(i)
        is_char = (st["k"] == "DeclRefExpr" and st["ref"]["d"] in chars) or \
                  (st["k"] in P.CALL_KINDS and st.get("callee", {}).get("q", "").split("::")[-1] in cursor)
        if not is_char:
            continue
        # climb through transparent nodes / casts
        j = par.get(i)
        while j is not None and (fn.s(j)["k"] in P.TRANSPARENT or fn.s(j)["k"] in P.EXPLICIT_CASTS):
            j = par.get(j)
        if j is None:
            continue
        pj = fn.s(j)
        k = pj["k"]
        if k == "BinaryOperator" and pj["op"] in ("==", "!="):
            continue
        if k == "BinaryOperator" and pj["op"] == "=":
            l = fn.s(fn.strip(pj["c"][0], casts=True))
            if l["k"] == "DeclRefExpr" and l["ref"]["d"] in chars:
                continue
        if k in ("SwitchStmt", "DeclStmt", "CompoundStmt", "IfStmt", "ForStmt", "WhileStmt"):
            continue
        if k == "MemberExpr":
            continue    # the bound member function of the call itself
        raise Ineligible("character used in %s at %s: %s" % (k, fn.loc(j), fn.text(j)[:60]))
    return chars


class Result(object):
    def __init__(self):
        self.mismatch = []     # (message, trace)
        self.unknown = []
        self.configs = 0
        self.returns = 0
        self.moves = 0


def explore(prog, fn, sigma, other, spec_init, spec_step, entry_heads, codes, max_configs=200000):
    """spec_step(state, ch) -> ("consume", state') | ("consume-stop", codes) | ("stop", codes)
    with ch an int in sigma or `other`; codes a set of enumerator names."""
    it = absint.Interp(prog)
    blocks = fn.blocks()
    res = Result()
    alphabet = sorted(sigma) + [other]
    byval = {v: n for n, v in codes.items()}

    def name(ch):
        if ch == other:
            return "x"
        if ch == 0:
            return "NUL"
        return repr(chr(ch)).strip("'") if 32 < ch < 127 else {32: "SP", 9: "TAB", 10: "LF", 13: "CR"}.get(ch, "\\x%02x" % ch)

    start = []
    for h in entry_heads:
        start.append((fn.cfg["entry"], 0, (), (), h, ("run", spec_init), False, (name(h),)))
    seen = set()
    import collections
    work = collections.deque(start)
    while work:
        cfgk = work.popleft()
        b, idx, envt, cvt, head, sst, past, trace = cfgk
        key = (b, idx, envt, cvt, head, sst, past)
        if key in seen:
            continue
        seen.add(key)
        res.configs += 1
        if res.configs > max_configs:
            res.unknown.append("configuration budget exceeded")
            return res
        blk = blocks[b]
        path = absint.Path()
        path.env = dict(envt)
        path.callval = dict(cvt)
        el = blk["el"]
        stopped = False
        while idx < len(el):
            e = el[idx]
            idx += 1
            if not isinstance(e, int) or e < 0:
                continue
            st = fn.s(e)
            k = st["k"]
            if k in P.CALL_KINDS and "callee" in st:
                nm = st["callee"]["q"].split("::")[-1]
                if nm == "current":
                    if past:
                        res.mismatch.append(("the routine looks at the input again after moving past its end", trace))
                        stopped = True
                        break
                    path.callval[e] = C(head)
                elif nm == "move":
                    res.moves += 1
                    # the reference automaton consumes the character under the cursor
                    if sst[0] == "stopped":
                        if head != 0:
                            res.mismatch.append(("consumes %s after the point where the scan must stop with %s" %
                                                 (name(head), "/".join(sorted(sst[1]))), trace))
                            stopped = True
                            break
                        nsst = sst
                    else:
                        r = spec_step(sst[1], head)
                        if head == 0:
                            if r[0] != "stop":
                                res.mismatch.append(("reference automaton consumes the terminator", trace))
                                stopped = True
                                break
                            nsst = ("stopped", frozenset(r[1]))
                        elif r[0] == "consume":
                            nsst = ("run", r[1])
                        elif r[0] == "consume-stop":
                            nsst = ("stopped", frozenset(r[1]))
                        else:
                            res.mismatch.append(("consumes %s where the scan must stop with %s and leave it" %
                                                 (name(head), "/".join(sorted(r[1]))), trace))
                            stopped = True
                            break
                    envt2 = tuple(sorted(path.env.items(), key=lambda kv: str(kv[0])))
                    cvt2 = tuple(sorted(path.callval.items()))
                    if head == 0:
                        work.append((b, idx, envt2, cvt2, 0, nsst, True, trace))
                    else:
                        for h2 in alphabet:
                            work.append((b, idx, envt2, cvt2, h2, nsst, False, trace + (name(h2),) if len(trace) < 12 else trace))
                    stopped = True
                    break
                else:
                    pass    # other calls: values unknown
            elif k == "DeclStmt":
                for d in st["decls"]:
                    if "init" in d:
                        path.env[d["d"]] = it.ev(fn, d["init"], path)
                    else:
                        path.env[d["d"]] = UNK
            elif k in ("BinaryOperator", "CompoundAssignOperator") and st["op"] in ("=", "+=", "-=", "|=", "&="):
                l = fn.s(fn.strip(st["c"][0], casts=True))
                if l["k"] == "DeclRefExpr" and l["ref"]["k"] in ("local", "parm"):
                    path.env[l["ref"]["d"]] = it.ev(fn, st["c"][1], path) if st["op"] == "=" else UNK
            elif k == "UnaryOperator" and st["op"] in ("++", "--"):
                l = fn.s(fn.strip(st["c"][0], casts=True))
                if l["k"] == "DeclRefExpr":
                    path.env[l["ref"]["d"]] = UNK
            elif k == "ReturnStmt":
                res.returns += 1
                ch = [c for c in st["c"] if c is not None and c >= 0]
                got = set()
                if ch:
                    r0 = fn.s(fn.strip(ch[0], casts=True))
                    vals = []
                    if r0["k"] == "ConditionalOperator":
                        cv = it._point(it.ev(fn, r0["c"][0], path), path)
                        if absint.is_c(cv):
                            vals = [it.ev(fn, r0["c"][1] if cv[1] else r0["c"][2], path)]
                        else:
                            vals = [it.ev(fn, r0["c"][1], path), it.ev(fn, r0["c"][2], path)]
                    else:
                        vals = [it.ev(fn, ch[0], path)]
                    for v in vals:
                        v = it._point(v, path)
                        if absint.is_c(v) and v[1] in byval:
                            got.add(byval[v[1]])
                        else:
                            got.add("?")
                if "?" in got:
                    res.unknown.append("return value not a constant error code at %s" % fn.loc(e))
                    stopped = True
                    break
                if sst[0] == "stopped":
                    want = sst[1]
                else:
                    r = spec_step(sst[1], head)
                    if r[0] != "stop":
                        res.mismatch.append(("returns %s with %s under the cursor, where the scan must go on (%s)" %
                                             ("/".join(sorted(got)), name(head), r[0]), trace))
                        stopped = True
                        break
                    want = frozenset(r[1])
                if not got <= want:
                    res.mismatch.append(("returns %s where %s is required" % ("/".join(sorted(got)), "/".join(sorted(want))), trace))
                stopped = True
                break
        if stopped:
            continue
        if blk.get("noreturn"):
            continue
        succ = blk["succ"]
        nxt = None
        if b == fn.cfg["exit"] or not succ:
            continue
        if blk.get("termk") == "SwitchStmt" and "cond" in blk:
            v = it._point(it.ev(fn, blk["cond"], path), path)
            if not absint.is_c(v):
                res.unknown.append("switch condition does not fold at %s" % fn.loc(blk["cond"]))
                continue
            default = None
            for s in succ:
                if s < 0:
                    continue
                lb = blocks[s].get("label")
                ls = fn.s(lb) if lb is not None else None
                if ls is not None and ls["k"] == "CaseStmt":
                    if int(ls["lo"]) <= v[1] <= int(ls.get("hi", ls["lo"])):
                        nxt = s
                        break
                else:
                    default = s
            if nxt is None:
                nxt = default
            if nxt is None:
                continue
        elif "cond" in blk and len(succ) == 2:
            v = it._point(it.ev(fn, blk["cond"], path), path)
            if not absint.is_c(v):
                # a test on object state (a member of *this), not on the input:
                # both outcomes are possible
                cnodes = [fn.s(x) for x in fn.walk(blk["cond"])]
                if any(x["k"] == "DeclRefExpr" or x["k"] in P.CALL_KINDS for x in cnodes) or \
                        not any(x["k"] == "MemberExpr" for x in cnodes):
                    res.unknown.append("condition does not fold at %s: %s" % (fn.loc(blk["cond"]), fn.text(blk["cond"])[:60]))
                    continue
                envt2 = tuple(sorted(path.env.items(), key=lambda kv: str(kv[0])))
                for s_ in succ:
                    if s_ >= 0:
                        work.append((s_, 0, envt2, (), head, sst, past, trace))
                continue
            nxt = succ[0] if v[1] else succ[1]
            if nxt < 0:
                continue
        else:
            ss = [s for s in succ if s >= 0]
            if not ss:
                continue
            nxt = ss[0]
        envt2 = tuple(sorted(path.env.items(), key=lambda kv: str(kv[0])))
        # call values are consumed inside their block
        work.append((nxt, 0, envt2, (), head, sst, past, trace))
    return res


# --------------------------------------------------------------------------
# second generation: inlines the routine's own helpers that touch the cursor
# (a call stack is part of the configuration), evaluates pure helpers on
# constants, forks on conditions that depend on object state only.

def touches_tape(prog, fn, memo=None, depth=0):
    memo = {} if memo is None else memo
    if fn.key in memo:
        return memo[fn.key]
    memo[fn.key] = False
    r = False
    for i, st in fn.calls():
        nm = st["callee"]["q"].split("::")[-1]
        if "JsonDeserializer" in st["callee"]["q"] and nm in ("current", "move"):
            r = True
            break
        cal = prog.fns.get(st["callee"]["key"])
        if cal is not None and depth < 6 and cal.cls.endswith("JsonDeserializer") and touches_tape(prog, cal, memo, depth + 1):
            r = True
            break
    memo[fn.key] = r
    return r


def relevant_vars(fn):
    """Locals/parameters whose value can influence control flow or the
    returned code (fixed point over assignments); all others are data."""
    R = set()

    def refs(i):
        return {fn.s(x)["ref"]["d"] for x in fn.walk(i) if fn.s(x)["k"] == "DeclRefExpr" and fn.s(x)["ref"]["k"] in ("local", "parm")}
    for b in fn.cfg["blocks"]:
        if "cond" in b:
            R |= refs(b["cond"])
    for i in fn.walk():
        st = fn.s(i)
        if st["k"] == "ReturnStmt" or st["k"] == "ConditionalOperator":
            R |= refs(i)
        if st["k"] in P.CALL_KINDS:
            for a in st.get("args", []):
                R |= refs(a)
    changed = True
    while changed:
        changed = False
        for i in fn.walk():
            st = fn.s(i)
            tgt = src = None
            if st["k"] in ("BinaryOperator", "CompoundAssignOperator") and st["op"].endswith("=") and st["op"] not in ("==", "!=", "<=", ">="):
                l = fn.s(fn.strip(st["c"][0], casts=True))
                if l["k"] == "DeclRefExpr":
                    tgt, src = l["ref"]["d"], st["c"][1]
            if st["k"] == "DeclStmt":
                for d in st["decls"]:
                    if "init" in d and d["d"] in R:
                        new = refs(d["init"]) - R
                        if new:
                            R |= new
                            changed = True
            if tgt is not None and tgt in R:
                new = refs(src) - R
                if new:
                    R |= new
                    changed = True
    return R


def explore2(prog, fn, alphabet, names, spec_init, spec_step, entry_heads, codes, max_configs=400000, pure_hooks=None,
             opaque=None, anywhere=()):
    it = absint.Interp(prog)
    relmemo = {}

    taintmemo = {}

    def tainted(f_):
        """locals that may hold an input character or a value computed from one"""
        if f_.key in taintmemo:
            return taintmemo[f_.key]
        T = set()

        def has_tape(i):
            for x in f_.walk(i):
                sx = f_.s(x)
                if sx["k"] in P.CALL_KINDS and "JsonDeserializer" in sx.get("callee", {}).get("q", ""):
                    return True
                if sx["k"] == "DeclRefExpr" and sx["ref"]["d"] in T:
                    return True
            return False
        changed = True
        while changed:
            changed = False
            for i in f_.walk():
                st_ = f_.s(i)
                if st_["k"] == "DeclStmt":
                    for d in st_["decls"]:
                        if "init" in d and d["d"] not in T and has_tape(d["init"]):
                            T.add(d["d"])
                            changed = True
                if st_["k"] in ("BinaryOperator", "CompoundAssignOperator") and st_["op"].endswith("=") and st_["op"] not in ("==", "!=", "<=", ">="):
                    l = f_.s(f_.strip(st_["c"][0], casts=True))
                    if l["k"] == "DeclRefExpr" and l["ref"]["d"] not in T and has_tape(st_["c"][1]):
                        T.add(l["ref"]["d"])
                        changed = True
        for p_ in f_.params:
            if p_.get("tk") in ("s8", "u8"):
                T.add(p_["d"])
        taintmemo[f_.key] = T
        return T

    def rel(f_):
        if f_.key not in relmemo:
            relmemo[f_.key] = relevant_vars(f_)
        return relmemo[f_.key]
    res = Result()
    byval = {v: n for n, v in codes.items()}
    tmemo = {}
    import collections

    def name(ch):
        if ch in names:
            return names[ch]
        if ch == 0:
            return "NUL"
        return repr(chr(ch)).strip("'") if 32 < ch < 127 else {32: "SP", 9: "TAB", 10: "LF", 13: "CR"}.get(ch, "\\x%02x" % (ch % 256))

    def freeze(path):
        return (tuple(sorted(path.env.items(), key=lambda kv: str(kv[0]))), tuple(sorted(path.callval.items())))

    start = []
    for h in entry_heads:
        start.append((((fn.key, fn.cfg["entry"], 0, (), (), None),), h, ("run", spec_init), False, (name(h),)))
    seen = set()
    work = collections.deque(start)
    forks = 0
    while work:
        frames, head, sst, past, trace = work.popleft()
        key = (frames, head, sst, past)
        if key in seen:
            continue
        seen.add(key)
        res.configs += 1
        if res.configs > max_configs:
            res.unknown.append("configuration budget exceeded")
            return res
        fkey, b, idx, envt, cvt, retto = frames[-1]
        f = prog.fns[fkey]
        blocks = f.blocks()
        blk = blocks[b]
        path = absint.Path()
        path.env = dict(envt)
        path.callval = dict(cvt)
        el = blk["el"]
        stopped = False

        def push(nframes, h=head, s=sst, p=past, t=trace):
            work.append((nframes, h, s, p, t))

        while idx < len(el):
            e = el[idx]
            idx += 1
            if not isinstance(e, int) or e < 0:
                continue
            st = f.s(e)
            k = st["k"]
            if k in P.CALL_KINDS and "callee" in st:
                q = st["callee"]["q"]
                nm = q.split("::")[-1]
                is_jd = "JsonDeserializer" in q
                if is_jd and nm == "current":
                    if past:
                        res.mismatch.append(("the routine looks at the input again after moving past its end", trace))
                        stopped = True
                        break
                    path.callval[e] = C(head)
                elif is_jd and nm == "move":
                    res.moves += 1
                    if sst[0] == "stopped":
                        if head != 0:
                            res.mismatch.append(("consumes %s after the point where the scan must stop with %s" %
                                                 (name(head), "/".join(sorted(sst[1]))), trace))
                            stopped = True
                            break
                        nsst = sst
                    else:
                        r = spec_step(sst[1], head)
                        if head == 0:
                            if r[0] != "stop":
                                res.mismatch.append(("reference automaton consumes the terminator", trace))
                                stopped = True
                                break
                            nsst = ("stopped", frozenset(r[1]))
                        elif r[0] == "consume":
                            nsst = ("run", r[1])
                        elif r[0] == "consume-stop":
                            nsst = ("stopped", frozenset(r[1]))
                        else:
                            res.mismatch.append(("consumes %s where the scan must stop with %s and leave it" %
                                                 (name(head), "/".join(sorted(r[1]))), trace))
                            stopped = True
                            break
                    envt2, cvt2 = freeze(path)
                    nf = frames[:-1] + ((fkey, b, idx, envt2, cvt2, retto),)
                    if head == 0:
                        push(nf, 0, nsst, True, trace)
                    else:
                        for h2 in alphabet:
                            push(nf, h2, nsst, False, trace + (name(h2),) if len(trace) < 14 else trace)
                    stopped = True
                    break
                elif is_jd and opaque and nm in opaque:
                    tok, failcodes, headsel = opaque[nm]
                    if callable(tok):
                        tok = tok(f, st, head)
                    if sst[0] == "stopped":
                        res.mismatch.append(("calls %s after the point where the scan must stop with %s" % (nm, "/".join(sorted(sst[1]))), trace))
                        stopped = True
                        break
                    r = spec_step(sst[1], tok)
                    if r[0] not in ("consume", "consume-stop"):
                        res.mismatch.append(("reads a %s (%s) where the scan must stop with %s" % (tok, nm, "/".join(sorted(r[1]))), trace))
                        stopped = True
                        break
                    after_ok = ("run", r[1]) if r[0] == "consume" else ("stopped", frozenset(r[1]))
                    res.moves += 1
                    envt2, _cv = freeze(path)
                    base_cv = dict(path.callval)
                    tr2 = trace + ("<%s>" % tok,) if len(trace) < 14 else trace
                    for h2 in headsel(alphabet, head):
                        cv2 = dict(base_cv)
                        cv2[e] = C(codes["Ok"])
                        push(frames[:-1] + ((fkey, b, idx, envt2, tuple(sorted(cv2.items())), retto),), h2, after_ok, False,
                             tr2 + (name(h2),) if len(tr2) < 14 else tr2)
                    for code in sorted(failcodes):
                        cv2 = dict(base_cv)
                        cv2[e] = C(codes[code])
                        push(frames[:-1] + ((fkey, b, idx, envt2, tuple(sorted(cv2.items())), retto),), head, ("stopped", frozenset(failcodes)), past,
                             tr2 + ("!%s" % code,) if len(tr2) < 14 else tr2)
                    stopped = True
                    break
                else:
                    cal = prog.fns.get(st["callee"]["key"])
                    if cal is not None and cal.cfg is not None and cal.cls.endswith("JsonDeserializer") and touches_tape(prog, cal, tmemo):
                        if len(frames) > 6:
                            res.unknown.append("inlining depth exceeded at %s" % q)
                            stopped = True
                            break
                        env2 = {}
                        for prm, a in zip(cal.params, st.get("args", [])):
                            env2[prm["d"]] = it._point(it.ev(f, a, path), path) if absint.type_range(prm.get("tk")) and "&" not in prm["t"] else UNK
                        envt2, cvt2 = freeze(path)
                        caller = (fkey, b, idx, envt2, cvt2, retto)
                        callee = (cal.key, cal.cfg["entry"], 0, tuple(sorted(env2.items(), key=lambda kv: str(kv[0]))), (), e)
                        push(frames[:-1] + (caller, callee))
                        stopped = True
                        break
                    if pure_hooks and nm in pure_hooks:
                        args = [it._point(it.ev(f, a, path), path) for a in st.get("args", [])]
                        if all(absint.is_c(a) for a in args):
                            path.callval[e] = C(pure_hooks[nm](*[a[1] for a in args]))
                    elif cal is not None and cal.cfg is not None:
                        # a pure helper on constants
                        args = [it._point(it.ev(f, a, path), path) for a in st.get("args", [])]
                        if args and all(absint.is_c(a) for a in args) and len(args) == len(cal.params):
                            sub = absint.Interp(prog, inline=("",))
                            sub.max_depth = 4
                            try:
                                ps = sub.run(cal, {prm["d"]: a for prm, a in zip(cal.params, args)})
                            except Exception:
                                ps = []
                            rets = set(p_.ret for p_ in ps if p_.end == "exit")
                            if len(rets) == 1 and absint.is_c(list(rets)[0]):
                                path.callval[e] = list(rets)[0]
            elif k == "DeclStmt":
                for d in st["decls"]:
                    path.env[d["d"]] = it.ev(f, d["init"], path) if "init" in d and d["d"] in rel(f) else UNK
            elif k in ("BinaryOperator", "CompoundAssignOperator") and st["op"] in ("=", "+=", "-=", "|=", "&="):
                l = f.s(f.strip(st["c"][0], casts=True))
                if l["k"] == "DeclRefExpr" and l["ref"]["k"] in ("local", "parm"):
                    path.env[l["ref"]["d"]] = it.ev(f, st["c"][1], path) if st["op"] == "=" and l["ref"]["d"] in rel(f) else UNK
            elif k == "UnaryOperator" and st["op"] in ("++", "--"):
                l = f.s(f.strip(st["c"][0], casts=True))
                if l["k"] == "DeclRefExpr":
                    v = path.env.get(l["ref"]["d"], UNK)
                    if absint.is_c(v):
                        path.env[l["ref"]["d"]] = C(absint.wrap(v[1] + (1 if st["op"] == "++" else -1), l.get("tk")))
                    else:
                        path.env[l["ref"]["d"]] = UNK
            elif k == "ReturnStmt":
                ch = [c for c in st["c"] if c is not None and c >= 0]
                vals = []
                if ch:
                    r0 = f.s(f.strip(ch[0], casts=True))
                    if r0["k"] == "ConditionalOperator":
                        cv = it._point(it.ev(f, r0["c"][0], path), path)
                        if absint.is_c(cv):
                            vals = [it.ev(f, r0["c"][1] if cv[1] else r0["c"][2], path)]
                        else:
                            vals = [it.ev(f, r0["c"][1], path), it.ev(f, r0["c"][2], path)]
                    else:
                        vals = [it.ev(f, ch[0], path)]
                vals = [it._point(v, path) for v in vals]
                if len(frames) > 1:
                    # return into the caller
                    cf = frames[-2]
                    for v in (vals or [UNK]):
                        ccv = dict(cf[4])
                        if retto is not None:
                            ccv[retto] = v
                        push(frames[:-2] + ((cf[0], cf[1], cf[2], cf[3], tuple(sorted(ccv.items())), cf[5]),))
                    stopped = True
                    break
                res.returns += 1
                got = set()
                for v in vals:
                    got.add(byval[v[1]] if absint.is_c(v) and v[1] in byval else "?")
                if "?" in got:
                    res.unknown.append("return value not a constant error code at %s" % f.loc(e))
                    stopped = True
                    break
                if got <= set(anywhere):
                    stopped = True      # resource errors may end the scan anywhere (who returns them is R-WHORET's business)
                    break
                if sst[0] == "stopped":
                    want = sst[1]
                else:
                    r = spec_step(sst[1], head)
                    if r[0] != "stop":
                        res.mismatch.append(("returns %s with %s under the cursor, where the scan must go on (%s)" %
                                             ("/".join(sorted(got)), name(head), r[0]), trace))
                        stopped = True
                        break
                    want = frozenset(r[1])
                if not got <= want | set(anywhere):
                    res.mismatch.append(("returns %s where %s is required" % ("/".join(sorted(got)), "/".join(sorted(want))), trace))
                stopped = True
                break
        if stopped:
            continue
        if blk.get("noreturn"):
            continue
        succ = blk["succ"]
        if not succ or b == f.cfg["exit"]:
            if len(frames) > 1:
                cf = frames[-2]
                push(frames[:-2] + (cf,))      # void helper fell off its end
            continue
        nxts = []
        if blk.get("termk") == "SwitchStmt" and "cond" in blk:
            v = it._point(it.ev(f, blk["cond"], path), path)
            if not absint.is_c(v):
                res.unknown.append("switch condition does not fold at %s" % f.loc(blk["cond"]))
                continue
            default = None
            nxt = None
            for s in succ:
                if s < 0:
                    continue
                lb = blocks[s].get("label")
                ls = f.s(lb) if lb is not None else None
                if ls is not None and ls["k"] == "CaseStmt":
                    if int(ls["lo"]) <= v[1] <= int(ls.get("hi", ls["lo"])):
                        nxt = s
                        break
                else:
                    default = s
            nxt = default if nxt is None else nxt
            if nxt is not None:
                nxts = [nxt]
        elif "cond" in blk and len(succ) == 2:
            v = it._point(it.ev(f, blk["cond"], path), path)
            if absint.is_c(v):
                nxts = [succ[0] if v[1] else succ[1]]
            else:
                cn = [f.s(x) for x in f.walk(blk["cond"])]
                object_state = any(x["k"] == "MemberExpr" and f.s(x["c"][0])["k"] == "CXXThisExpr" and x.get("m", "").endswith("_") and
                                   "function type" not in x.get("t", "") for x in cn if x["c"]) or \
                    any(x["k"] in P.CALL_KINDS and "JsonDeserializer" not in x.get("callee", {}).get("q", "") for x in cn)
                if not object_state:
                    # a test on a local that holds no input character (a slot pointer, a filter, ...)
                    tv = tainted(f)
                    used = {x["ref"]["d"] for x in cn if x["k"] == "DeclRefExpr" and x["ref"]["k"] in ("local", "parm")}
                    object_state = bool(used) and not (used & tv)
                if not object_state:
                    res.unknown.append("condition does not fold at %s: %s" % (f.loc(blk["cond"]), f.text(blk["cond"])[:60]))
                    continue
                forks += 1
                nxts = [s for s in succ]
        else:
            nxts = [s for s in succ if s >= 0][:1]
        envt2, _ = freeze(path)
        for s in nxts:
            if s is not None and s >= 0:
                push(frames[:-1] + ((fkey, s, 0, envt2, (), retto),))
    res.forks = forks
    return res
