"""Finite-state abstraction of a character-scanning routine and its
conformance to a reference automaton (R-SCAN of DESIGN).

A scanning routine of the JSON reader looks at the input only through
current() (the character under the cursor) and move() (advance).  When every
use of such a character is an equality test against a constant (==, !=, a
case label) or against another such character, the routine cannot tell apart
two characters outside the set SIGMA of those constants: its behaviour is a
function of the *class* string of the input (each constant is a class, all
other characters form one class).  The abstraction is then exact, and finite:
a configuration is (CFG position, values of the locals, class under the
cursor).  We explore all reachable configurations for all class strings
(worklist with memo; expressions are folded with lib/absint's evaluator on
constants) in lock step with a hand-written reference automaton that says,
for each state and class, `consume`, `consume and stop with code`, or `stop
with code`.  A mismatch is reported with the class string that leads to it.

This is predicate abstraction + automata conformance over the syntax of the
current tree: no library code is compiled or run; the eligibility condition
(only equality tests on characters) is checked on the syntax tree and makes
the result hold for every input string, of any length.
"""
from lib import absint
from lib import prog as P

C = absint.C
UNK = absint.UNK


class Ineligible(Exception):
    pass


def char_consts(fn, extra=()):
    """Constants that characters are compared with in fn (case labels and
    ==/!= operands that fold), as ints."""
    out = set(extra)
    for i in fn.walk():
        st = fn.s(i)
        if st["k"] == "CaseStmt":
            out.add(int(st["lo"]))
            if "hi" in st and int(st["hi"]) != int(st["lo"]):
                raise Ineligible("case range at %s" % fn.loc(i))
        elif st["k"] == "BinaryOperator" and st["op"] in ("==", "!="):
            for c in st["c"]:
                v = fn.const(c)
                sc = fn.s(fn.strip(c, casts=True))
                if v is not None and sc["k"] in ("CharacterLiteral", "IntegerLiteral"):
                    out.add(int(v))
    return out


def check_eligible(fn, cursor=("current",), advance=("move",)):
    """Characters (values of current() and locals of type char) are used only
    in ==, !=, switch conditions, assignments between char locals."""
    chars = set()
    for i in fn.walk():
        st = fn.s(i)
        if st["k"] == "DeclStmt":
            for d in st["decls"]:
                if d.get("tk") in ("s8", "u8") and "char" in d.get("t", ""):
                    chars.add(d["d"])
    par = fn.parents()
    for i in fn.walk():
        st = fn.s(i)
        is_char = (st["k"] == "DeclRefExpr" and st["ref"]["d"] in chars) or \
                  (st["k"] in P.CALL_KINDS and st.get("callee", {}).get("q", "").split("::")[-1] in cursor)
        if not is_char:
            continue
        # climb through transparent nodes / casts
        j = par.get(i)
        while j is not None and (fn.s(j)["k"] in P.TRANSPARENT or fn.s(j)["k"] in P.EXPLICIT_CASTS):
            j = par.get(j)
        if j is None:
            continue
        pj = fn.s(j)
        k = pj["k"]
        if k == "BinaryOperator" and pj["op"] in ("==", "!="):
            continue
        if k == "BinaryOperator" and pj["op"] == "=":
            l = fn.s(fn.strip(pj["c"][0], casts=True))
            if l["k"] == "DeclRefExpr" and l["ref"]["d"] in chars:
                continue
        if k in ("SwitchStmt", "DeclStmt", "CompoundStmt", "IfStmt", "ForStmt", "WhileStmt"):
            continue
        if k == "MemberExpr":
            continue    # the bound member function of the call itself
        raise Ineligible("character used in %s at %s: %s" % (k, fn.loc(j), fn.text(j)[:60]))
    return chars


class Result(object):
    def __init__(self):
        self.mismatch = []     # (message, trace)
        self.unknown = []
        self.configs = 0
        self.returns = 0
        self.moves = 0


def explore(prog, fn, sigma, other, spec_init, spec_step, entry_heads, codes, max_configs=200000):
    """spec_step(state, ch) -> ("consume", state') | ("consume-stop", codes) | ("stop", codes)
    with ch an int in sigma or `other`; codes a set of enumerator names."""
    it = absint.Interp(prog)
    blocks = fn.blocks()
    res = Result()
    alphabet = sorted(sigma) + [other]
    byval = {v: n for n, v in codes.items()}

    def name(ch):
        if ch == other:
            return "x"
        if ch == 0:
            return "NUL"
        return repr(chr(ch)).strip("'") if 32 < ch < 127 else {32: "SP", 9: "TAB", 10: "LF", 13: "CR"}.get(ch, "\\x%02x" % ch)

    start = []
    for h in entry_heads:
        start.append((fn.cfg["entry"], 0, (), (), h, ("run", spec_init), False, (name(h),)))
    seen = set()
    import collections
    work = collections.deque(start)
    while work:
        cfgk = work.popleft()
        b, idx, envt, cvt, head, sst, past, trace = cfgk
        key = (b, idx, envt, cvt, head, sst, past)
        if key in seen:
            continue
        seen.add(key)
        res.configs += 1
        if res.configs > max_configs:
            res.unknown.append("configuration budget exceeded")
            return res
        blk = blocks[b]
        path = absint.Path()
        path.env = dict(envt)
        path.callval = dict(cvt)
        el = blk["el"]
        stopped = False
        while idx < len(el):
            e = el[idx]
            idx += 1
            if not isinstance(e, int) or e < 0:
                continue
            st = fn.s(e)
            k = st["k"]
            if k in P.CALL_KINDS and "callee" in st:
                nm = st["callee"]["q"].split("::")[-1]
                if nm == "current":
                    if past:
                        res.mismatch.append(("the routine looks at the input again after moving past its end", trace))
                        stopped = True
                        break
                    path.callval[e] = C(head)
                elif nm == "move":
                    res.moves += 1
                    # the reference automaton consumes the character under the cursor
                    if sst[0] == "stopped":
                        if head != 0:
                            res.mismatch.append(("consumes %s after the point where the scan must stop with %s" %
                                                 (name(head), "/".join(sorted(sst[1]))), trace))
                            stopped = True
                            break
                        nsst = sst
                    else:
                        r = spec_step(sst[1], head)
                        if head == 0:
                            if r[0] != "stop":
                                res.mismatch.append(("reference automaton consumes the terminator", trace))
                                stopped = True
                                break
                            nsst = ("stopped", frozenset(r[1]))
                        elif r[0] == "consume":
                            nsst = ("run", r[1])
                        elif r[0] == "consume-stop":
                            nsst = ("stopped", frozenset(r[1]))
                        else:
                            res.mismatch.append(("consumes %s where the scan must stop with %s and leave it" %
                                                 (name(head), "/".join(sorted(r[1]))), trace))
                            stopped = True
                            break
                    envt2 = tuple(sorted(path.env.items(), key=lambda kv: str(kv[0])))
                    cvt2 = tuple(sorted(path.callval.items()))
                    if head == 0:
                        work.append((b, idx, envt2, cvt2, 0, nsst, True, trace))
                    else:
                        for h2 in alphabet:
                            work.append((b, idx, envt2, cvt2, h2, nsst, False, trace + (name(h2),) if len(trace) < 12 else trace))
                    stopped = True
                    break
                else:
                    pass    # other calls: values unknown
            elif k == "DeclStmt":
                for d in st["decls"]:
                    if "init" in d:
                        path.env[d["d"]] = it.ev(fn, d["init"], path)
                    else:
                        path.env[d["d"]] = UNK
            elif k in ("BinaryOperator", "CompoundAssignOperator") and st["op"] in ("=", "+=", "-=", "|=", "&="):
                l = fn.s(fn.strip(st["c"][0], casts=True))
                if l["k"] == "DeclRefExpr" and l["ref"]["k"] in ("local", "parm"):
                    path.env[l["ref"]["d"]] = it.ev(fn, st["c"][1], path) if st["op"] == "=" else UNK
            elif k == "UnaryOperator" and st["op"] in ("++", "--"):
                l = fn.s(fn.strip(st["c"][0], casts=True))
                if l["k"] == "DeclRefExpr":
                    path.env[l["ref"]["d"]] = UNK
            elif k == "ReturnStmt":
                res.returns += 1
                ch = [c for c in st["c"] if c is not None and c >= 0]
                got = set()
                if ch:
                    r0 = fn.s(fn.strip(ch[0], casts=True))
                    vals = []
                    if r0["k"] == "ConditionalOperator":
                        cv = it._point(it.ev(fn, r0["c"][0], path), path)
                        if absint.is_c(cv):
                            vals = [it.ev(fn, r0["c"][1] if cv[1] else r0["c"][2], path)]
                        else:
                            vals = [it.ev(fn, r0["c"][1], path), it.ev(fn, r0["c"][2], path)]
                    else:
                        vals = [it.ev(fn, ch[0], path)]
                    for v in vals:
                        v = it._point(v, path)
                        if absint.is_c(v) and v[1] in byval:
                            got.add(byval[v[1]])
                        else:
                            got.add("?")
                if "?" in got:
                    res.unknown.append("return value not a constant error code at %s" % fn.loc(e))
                    stopped = True
                    break
                if sst[0] == "stopped":
                    want = sst[1]
                else:
                    r = spec_step(sst[1], head)
                    if r[0] != "stop":
                        res.mismatch.append(("returns %s with %s under the cursor, where the scan must go on (%s)" %
                                             ("/".join(sorted(got)), name(head), r[0]), trace))
                        stopped = True
                        break
                    want = frozenset(r[1])
                if not got <= want:
                    res.mismatch.append(("returns %s where %s is required" % ("/".join(sorted(got)), "/".join(sorted(want))), trace))
                stopped = True
                break
        if stopped:
            continue
        if blk.get("noreturn"):
            continue
        succ = blk["succ"]
        nxt = None
        if b == fn.cfg["exit"] or not succ:
            continue
        if blk.get("termk") == "SwitchStmt" and "cond" in blk:
            v = it._point(it.ev(fn, blk["cond"], path), path)
            if not absint.is_c(v):
                res.unknown.append("switch condition does not fold at %s" % fn.loc(blk["cond"]))
                continue
            default = None
            for s in succ:
                if s < 0:
                    continue
                lb = blocks[s].get("label")
                ls = fn.s(lb) if lb is not None else None
                if ls is not None and ls["k"] == "CaseStmt":
                    if int(ls["lo"]) <= v[1] <= int(ls.get("hi", ls["lo"])):
                        nxt = s
                        break
                else:
                    default = s
            if nxt is None:
                nxt = default
            if nxt is None:
                continue
        elif "cond" in blk and len(succ) == 2:
            v = it._point(it.ev(fn, blk["cond"], path), path)
            if not absint.is_c(v):
                # a test on object state (a member of *this), not on the input:
                # both outcomes are possible
                cnodes = [fn.s(x) for x in fn.walk(blk["cond"])]
                if any(x["k"] == "DeclRefExpr" or x["k"] in P.CALL_KINDS for x in cnodes) or \
                        not any(x["k"] == "MemberExpr" for x in cnodes):
                    res.unknown.append("condition does not fold at %s: %s" % (fn.loc(blk["cond"]), fn.text(blk["cond"])[:60]))
                    continue
                envt2 = tuple(sorted(path.env.items(), key=lambda kv: str(kv[0])))
                for s_ in succ:
                    if s_ >= 0:
                        work.append((s_, 0, envt2, (), head, sst, past, trace))
                continue
            nxt = succ[0] if v[1] else succ[1]
            if nxt < 0:
                continue
        else:
            ss = [s for s in succ if s >= 0]
            if not ss:
                continue
            nxt = ss[0]
        envt2 = tuple(sorted(path.env.items(), key=lambda kv: str(kv[0])))
        # call values are consumed inside their block
        work.append((nxt, 0, envt2, (), head, sst, past, trace))
    return res
