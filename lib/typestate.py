"""Generic forward typestate analysis over the ajx CFG.

The client supplies
  init            the state at function entry,
  transfer(fn, stmt_id, state) -> iterable of states   (for every CFG element,
                  in evaluation order; return (state,) for no effect),
  branch(fn, cond_id, polarity, state) -> state or None (None = infeasible),
  check(fn, stmt_id, state) -> None or a message        (called before transfer).
States must be hashable.  The analysis is a may-analysis: it propagates the
set of states reachable at each program point to a fixed point and reports
(stmt, state, message) for every check that fails in some reachable state,
together with one witness path of block ids.
"""


def analyse(fn, init, transfer, branch=None, check=None, max_states=2000):
    blocks = fn.blocks()
    entry = fn.cfg["entry"]
    instates = {entry: {init: (None, None)}}   # block -> {state: (pred block, pred state)}
    work = [entry]
    reports = []
    seen_reports = set()
    exit_states = set()
    nstates = 0
    while work:
        b = work.pop()
        blk = blocks[b]
        for st0 in list(instates.get(b, {})):
            states = {st0}
            for e in blk["el"]:
                if not isinstance(e, int):
                    continue
                nxt = set()
                for s in states:
                    if check is not None:
                        msg = check(fn, e, s)
                        if msg and (e, s, msg) not in seen_reports:
                            seen_reports.add((e, s, msg))
                            reports.append((e, s, msg, witness(instates, b, st0)))
                    for s2 in transfer(fn, e, s):
                        nxt.add(s2)
                states = nxt
                if not states:
                    break
            if not states:
                continue
            if b == fn.cfg["exit"]:
                exit_states |= states
            succ = blk["succ"]
            for k, sb in enumerate(succ):
                if sb < 0:
                    continue
                for s in states:
                    s2 = s
                    if branch is not None and "cond" in blk and len(succ) == 2 and blk.get("termk") != "SwitchStmt":
                        s2 = branch(fn, blk["cond"], k == 0, s)
                        if s2 is None:
                            continue
                    elif branch is not None and blk.get("termk") == "SwitchStmt" and "cond" in blk:
                        lb = blocks[sb].get("label")
                        s2 = branch(fn, ("switch", blk["cond"], lb), True, s)
                        if s2 is None:
                            continue
                    d = instates.setdefault(sb, {})
                    if s2 not in d:
                        d[s2] = (b, st0)
                        nstates += 1
                        if nstates > max_states:
                            return reports, exit_states, "state budget exceeded"
                        if sb not in work:
                            work.append(sb)
                    elif sb not in work and False:
                        work.append(sb)
    return reports, exit_states, None


def witness(instates, b, s):
    path = []
    seen = set()
    while b is not None and (b, s) not in seen:
        seen.add((b, s))
        path.append(b)
        b, s = instates.get(b, {}).get(s, (None, None))
    return list(reversed(path))
