"""R-ACCUM — no unbounded narrow counter in an input-driven loop (C12/C13:
"never a finite value of the wrong magnitude", "never undefined").

For every loop whose continuation condition mentions no variable modified in
its body other than pointers (the trip count is then controlled by the input
alone), every modification of an integer local narrower than 64 bits (++, --,
+=, -=, x = x*k + d) must be control-dependent on a comparison inside the
loop, or the variable must be compared inside the loop on a branch that can
leave it.  Otherwise a long enough input wraps the variable (undefined for
signed int, silently wrong for int8_t/int16_t).
"""
from lib import prog as P

LOOPS = ("WhileStmt", "ForStmt", "DoStmt")


def mods_in(fn, root):
    out = []
    for i in fn.walk(root):
        st = fn.s(i)
        tgt = None
        if st["k"] == "UnaryOperator" and st["op"] in ("++", "--"):
            tgt = st["c"][0]
        elif st["k"] in ("BinaryOperator", "CompoundAssignOperator") and st["op"] in ("=", "+=", "-=", "*=", "/=", "<<=", ">>=", "|="):
            tgt = st["c"][0]
        if tgt is None:
            continue
        t = fn.s(fn.strip(tgt, casts=True))
        if t["k"] == "DeclRefExpr" and t["ref"]["k"] in ("local", "parm"):
            out.append((i, t["ref"]["d"], t["ref"]["n"], t.get("tk", ""), st["op"]))
    return out


def run(ctx, prog, rule="R-ACCUM", files=("Numbers/", "Json/JsonDeserializer.hpp", "Json/Utf", "MsgPack/MsgPackDeserializer.hpp", "Json/TextFormatter.hpp")):
    nloops = 0
    for fn in sorted(prog.fns.values(), key=lambda f: f.key):
        if not fn.file.startswith(files):
            continue
        for li in fn.walk():
            ls = fn.s(li)
            if ls["k"] not in LOOPS:
                continue
            nloops += 1
            body = ls.get("body")
            cond = ls.get("cond")
            inc = ls.get("inc")
            mods = mods_in(fn, body) + (mods_in(fn, inc) if inc is not None else [])
            if not mods:
                continue
            cond_vars = set()
            if cond is not None:
                for j in fn.walk(cond):
                    sj = fn.s(j)
                    if sj["k"] == "DeclRefExpr" and sj.get("tk") != "ptr":
                        cond_vars.add(sj["ref"]["d"])
            modvars = {d for _, d, _, tk, _ in mods if tk != "ptr"}
            if cond_vars & modvars:
                continue  # the loop bounds itself through a variable it changes
            body_nodes = set(fn.walk(body)) | (set(fn.walk(inc)) if inc is not None else set())
            body_blocks = {fn.block_of(x)[0] for x in body_nodes if fn.block_of(x)}
            # comparisons inside the loop
            inner_conds = []
            for b, c, succ in fn.branch_conditions():
                if fn.strip(c, casts=True) in body_nodes or c in body_nodes:
                    inner_conds.append((b, c, succ))
            for (mi, d, name, tk, op) in mods:
                if tk in ("ptr", "bool", "") or not (tk[0] in "su" and tk[1:].isdigit()):
                    continue
                w = int(tk[1:])
                if w >= 64:
                    continue
                if op in ("=",):
                    # only accumulations: rhs mentions the variable itself
                    rhs = fn.s(mi)["c"][1]
                    if not any(fn.s(x)["k"] == "DeclRefExpr" and fn.s(x)["ref"]["d"] == d for x in fn.walk(rhs)):
                        continue
                if op in ("/=", ">>="):
                    continue
                guarded = any(fn.strip(c, casts=True) in body_nodes or c in body_nodes for c, pol in fn.guards_of(mi))
                exits = False
                for b, c, succ in inner_conds:
                    if any(fn.s(x)["k"] == "DeclRefExpr" and fn.s(x)["ref"]["d"] == d for x in fn.walk(c)):
                        # one successor can leave the loop without going
                        # back through the loop condition (break / return)
                        condblocks = {bb["id"] for bb in fn.cfg["blocks"]
                                      if cond is not None and bb.get("cond") is not None and
                                      (bb["cond"] == cond or fn.strip(bb["cond"], casts=True) == fn.strip(cond, casts=True))}
                        reach = [fn.cfg["exit"] in fn.reach_from([s], avoid=condblocks) for s in succ if s >= 0]
                        if any(reach) and not all(reach):
                            exits = True
                        elif any(reach) and len(reach) == 2:
                            exits = True
                ok = guarded or exits
                ctx.ob(rule, "%s: %s %s in an input-driven loop is bounded" % (fn.short, name, op), ok, fn.loc(mi),
                       "modification is guarded / the variable is tested with an exit inside the loop" if ok else
                       "%s (%d-bit %s) is changed once per input character with no test inside the loop: a long enough input wraps it "
                       "(%s), so the magnitude of the result is wrong" % (name, w, "signed" if tk[0] == "s" else "unsigned",
                                                                        "undefined behaviour" if tk == "s32" else "silent wrap-around"))
    ctx.floor(rule, "loops inspected", nloops, 10)
    ctx.doc(rule, __doc__.strip().split("\n\n")[1].replace("\n", " "))


LOCKSTEP_DOC = """R-LOCKSTEP — a digit is never counted twice (C12: "never a finite value of the wrong magnitude"; C13: numeric strings).
A cursor loop is a loop whose condition reads *s through a pointer local s that its body advances.  On every path through the
body that leaves the loop without advancing s and stays in the function (break), no variable that is read after the loop may
have been changed: otherwise the character under the cursor has been folded into that variable and is seen again by the code
that follows (the next loop counts it once more), and the result is off by a power of the base."""


def run_lockstep(ctx, prog, rule="R-LOCKSTEP", files=("Numbers/", "Json/", "MsgPack/", "Strings/", "Variant/", "Deserialization/")):
    nloops = 0
    for fn in sorted(prog.fns.values(), key=lambda f: f.key):
        if not fn.file.startswith(files) or fn.cfg is None:
            continue
        for li in fn.walk():
            ls = fn.s(li)
            if ls["k"] not in LOOPS:
                continue
            cond, body, inc = ls.get("cond"), ls.get("body"), ls.get("inc")
            if cond is None or body is None:
                continue
            cursors = {}
            for j in fn.walk(cond):
                sj = fn.s(j)
                if sj["k"] == "UnaryOperator" and sj["op"] == "*":
                    b = fn.s(fn.strip(sj["c"][0], casts=True))
                    if b["k"] == "DeclRefExpr" and b["ref"]["k"] in ("local", "parm") and b.get("tk") == "ptr":
                        cursors[b["ref"]["d"]] = b["ref"]["n"]
            mods = mods_in(fn, body) + (mods_in(fn, inc) if inc is not None else [])
            adv = {d for _, d, _, _, op in mods if d in cursors and op in ("++", "+=")}
            if not adv:
                continue
            nloops += 1
            modat = {}
            for (mi, d, name, tk, op) in mods:
                if tk == "bool" and d not in cursors:
                    continue        # a flag holds nothing of the character's value
                if op == "=" and d not in cursors:
                    rhs = fn.s(mi)["c"][1]
                    if fn.const(rhs) is not None or "cv" in fn.s(fn.strip(rhs, casts=True)) or \
                            fn.s(fn.strip(rhs, casts=True))["k"] in ("CXXBoolLiteralExpr", "IntegerLiteral", "CharacterLiteral"):
                        continue    # a flag set to a constant holds nothing of the character
                modat[mi] = (d, name, op)
            blocks = fn.blocks()
            pos = fn.pos()
            body_nodes = set(fn.walk(body)) | (set(fn.walk(inc)) if inc is not None else set())
            cond_nodes = set(fn.walk(cond))
            LB = {pos[x][0] for x in body_nodes if x in pos}
            CB = {pos[x][0] for x in cond_nodes if x in pos} - LB
            starts = set()
            for cb in CB:
                for s in blocks[cb]["succ"]:
                    if s in LB:
                        starts.add(s)
            if ls["k"] == "DoStmt":
                starts = {min(LB, key=lambda b: -b)} if LB else set()
            bad = []
            seen = set()
            stack = [(s, False, frozenset()) for s in starts]
            while stack:
                b, advanced, writes = stack.pop()
                if (b, advanced, writes) in seen:
                    continue
                seen.add((b, advanced, writes))
                w = set(writes)
                for e in blocks[b]["el"]:
                    if e in modat and e in body_nodes:
                        d, name, op = modat[e]
                        if d in adv:
                            advanced = True
                        else:
                            w.add((d, name, e))
                for s in blocks[b]["succ"]:
                    if s < 0:
                        continue
                    if s in CB:
                        continue            # back edge: next iteration re-reads *s
                    if s in LB:
                        stack.append((s, advanced, frozenset(w)))
                        continue
                    # leaves the loop
                    if advanced or not w:
                        continue
                    after = fn.reach_from([s])
                    for (d, name, e) in sorted(w, key=lambda x: x[2]):
                        read = False
                        for ab in after:
                            for x in blocks[ab]["el"]:
                                if not isinstance(x, int) or x < 0 or x in body_nodes:
                                    continue
                                sx = fn.s(x)
                                if sx["k"] == "DeclRefExpr" and sx["ref"]["d"] == d:
                                    read = True
                        if read:
                            bad.append((e, name))
            cname = "/".join(sorted(cursors[d] for d in adv))
            ok = not bad
            ctx.ob(rule, "%s: loop on *%s at line %s leaves no half-consumed character" % (fn.short, cname, fn.loc(li).rsplit(":", 1)[-1]),
                   ok, fn.loc(li) if ok else fn.loc(bad[0][0]),
                   "every path that leaves the loop without advancing %s leaves the variables read afterwards unchanged" % cname if ok else
                   "%s is changed and the loop is then left by a break without advancing %s: the character under the cursor is already "
                   "folded into %s and is processed again by the code after the loop, so the result is off by a power of ten "
                   "(e.g. the literal 18446744073709551616 = 2^64 parses as 1.8e20)" % (bad[0][1], cname, bad[0][1]))
    ctx.floor(rule, "cursor loops", nloops, 4)
    ctx.doc(rule, LOCKSTEP_DOC.split("\n", 1)[1].replace("\n", " "))
