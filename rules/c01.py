"""C01 — valid JSON deserializes to the value it denotes (structural clauses)."""
from rules import jsonparse as J
from rules import nul, cbs


def run(ctx, prog):
    J.r_reset(ctx, prog)
    J.r_numbuf(ctx, prog)
    J.r_numall(ctx, prog)
    J.r_ws(ctx, prog)
    J.r_closer(ctx, prog)
    nul.run(ctx, prog, rule="R-NUL", only_files=["Json/JsonDeserializer.hpp", "Memory/StringBuilder.hpp", "Memory/StringPool.hpp",
                                                 "Deserialization/", "Object/ObjectImpl.hpp"])
    ctx.doc("R-NUL", "keys and strings keep their length on the JSON reader side")
    cbs.run(ctx, prog)
    from rules import scan
    scan.run(ctx, prog)
    from rules import c04
    c04.keyval(ctx, prog)
    J.r_numlook(ctx, prog)
