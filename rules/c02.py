"""C02 — serializeJson emits exactly the document, on every destination
(structural clauses).

R-BUFGUARD  every store through the caller's buffer pointer in
            StaticStringWriter::write is dominated by the p < end edge.
R-NULGUARD  the text serialize() overload stores the terminator only at index
            n under n < bufferSize; the binary overload stores none.
R-SCRATCH   the formatter's scratch buffers are large enough: writeInteger<T>
            needs digits10(T_max) <= extent for every instantiated T;
            writeDecimals needs width+1 <= extent where width is one of the
            constants passed to writeFloat and only ever decremented.
R-COUNT     the counting decorator adds what the writer reports; unbounded
            writers return 1 / n; measure and serialize share the serializer.
R-NUL       strings are written with their length.
R-LOOPIDX   a loop index compared with a variable bound is at least as wide as
            the bound (else the loop cannot terminate for large bounds).
"""
from lib import prog as P
from rules import nul


def run(ctx, prog):
    from rules import rawio
    rawio.run(ctx, prog, readers=False)
    from rules import nulldata
    nulldata.run(ctx, prog)
    # ---------------------------------------------------------------- R-BUFGUARD
    rule = "R-BUFGUARD"
    n = 0
    for fn in prog.q("StaticStringWriter::write"):
        for i in fn.walk():
            st = fn.s(i)
            if st["k"] != "BinaryOperator" or st["op"] != "=":
                continue
            l = fn.s(fn.strip(st["c"][0], casts=True))
            if not (l["k"] == "UnaryOperator" and l["op"] == "*"):
                continue
            n += 1
            ok = False
            for cond, pol in fn.guards_of(i):
                c = fn.s(fn.strip(cond, casts=True))
                if c["k"] == "BinaryOperator" and c["op"] in ("<", ">=", ">", "<=", "!=", "=="):
                    names = []
                    for x in c["c"]:
                        sx = fn.s(fn.strip(x, casts=True))
                        names.append(sx.get("m") or sx.get("ref", {}).get("n"))
                    if names == ["p", "end"]:
                        if (c["op"] == "<" and pol) or (c["op"] == ">=" and not pol):
                            ok = True
                    if names == ["end", "p"]:
                        if (c["op"] == ">" and pol) or (c["op"] == "<=" and not pol):
                            ok = True
            ctx.ob(rule, "StaticStringWriter::write(%s): store under p < end" % ("byte" if len(fn.params) == 1 else "block"), ok, fn.loc(i),
                   "" if ok else "a byte is stored through p without the p < end test: writes beyond the caller's buffer")
    ctx.floor(rule, "stores in StaticStringWriter", n, 2)

    # ---------------------------------------------------------------- R-NULGUARD
    rule = "R-NULGUARD"
    nt = 0
    for fn in prog.q("detail::serialize"):
        if len(fn.params) != 3 or not fn.params[1]["t"].startswith("void *"):
            continue
        stores = []
        for i in fn.walk():
            st = fn.s(i)
            if st["k"] == "BinaryOperator" and st["op"] == "=":
                l = fn.s(fn.strip(st["c"][0], casts=True))
                if l["k"] == "ArraySubscriptExpr":
                    stores.append((i, l))
        text = "JsonSerializer" in fn.key
        nt += 1
        if not text:
            ctx.ob(rule, "binary serialize() stores no terminator", not stores, fn.where, "")
            continue
        ok = len(stores) == 1
        why = "expected exactly one terminator store, found %d" % len(stores)
        if ok:
            i, l = stores[0]
            idx = fn.s(fn.strip(l["c"][1], casts=True))
            ok = False
            why = "terminator store is not guarded by n < bufferSize"
            for cond, pol in fn.guards_of(i):
                c = fn.s(fn.strip(cond, casts=True))
                if c["k"] == "BinaryOperator" and c["op"] in ("<", ">", ">=", "<="):
                    a = fn.s(fn.strip(c["c"][0], casts=True))
                    b = fn.s(fn.strip(c["c"][1], casts=True))
                    an, bn = a.get("ref", {}).get("n"), b.get("ref", {}).get("n")
                    same_idx = idx.get("ref", {}).get("d") in (a.get("ref", {}).get("d"), b.get("ref", {}).get("d"))
                    if same_idx and ((an == idx["ref"]["n"] and bn == "bufferSize" and ((c["op"] == "<" and pol) or (c["op"] == ">=" and not pol))) or
                                     (bn == idx["ref"]["n"] and an == "bufferSize" and ((c["op"] == ">" and pol) or (c["op"] == "<=" and not pol)))):
                        ok = True
                        why = "buffer[n] = 0 only under n < bufferSize"
                    elif same_idx:
                        why = "terminator guarded by %s, which admits n == bufferSize: the NUL lands one byte past the buffer" % fn.text(cond)
        ctx.ob(rule, "text serialize(): NUL iff length < capacity", ok, fn.where, why)
    ctx.floor(rule, "serialize(void*,size) overloads", nt, 3)

    # ---------------------------------------------------------------- R-SCRATCH
    rule = "R-SCRATCH"
    ni = 0
    for fn in prog.q("TextFormatter::writeInteger"):
        ext = None
        for i in fn.walk():
            st = fn.s(i)
            if st["k"] == "DeclStmt":
                for d in st["decls"]:
                    if d.get("extent") and d["t"].startswith("char"):
                        ext = d["extent"]
        if ext is None:
            continue  # the signed overload forwards to the unsigned one
        ni += 1
        tk = fn.params[0]["tk"]
        w = int(tk[1:])
        digits = len(str((1 << w) - 1))
        ctx.ob(rule, "writeInteger<%s>: %d digits fit char[%d]" % (fn.params[0]["t"], digits, ext), digits <= ext, fn.where,
               "" if digits <= ext else "a %d-bit value has up to %d digits: the reverse fill underflows the scratch buffer" % (w, digits))
    ctx.floor(rule, "writeInteger instantiations", ni, 3)
    places = set()
    for fn in prog.q("TextFormatter::writeFloat"):
        for i, st in fn.calls():
            if st["callee"]["q"].endswith("TextFormatter::writeFloat") and len(st.get("args", [])) == 2:
                v = fn.const(st["args"][1])
                places.add(v)
    dext = None
    for fn in prog.q("TextFormatter::writeDecimals")[:1]:
        for i in fn.walk():
            st = fn.s(i)
            if st["k"] == "DeclStmt":
                for d in st["decls"]:
                    if d.get("extent"):
                        dext = d["extent"]
    okp = bool(places) and None not in places and dext is not None and max(places) + 1 <= dext
    ctx.ob(rule, "writeDecimals: width+1 <= char[%s] for decimal places %s" % (dext, sorted(x for x in places if x is not None)), okp,
           "Json/TextFormatter.hpp", "" if okp else "decimal places passed to writeFloat are not constants bounded by the scratch buffer")
    # decimalPlaces only decreases in decomposeFloat
    for fn in prog.q("detail::decomposeFloat")[:1]:
        bad = None
        for i in fn.walk():
            st = fn.s(i)
            t = None
            if st["k"] == "UnaryOperator" and st["op"] == "++":
                t = st["c"][0]
            elif st["k"] in ("BinaryOperator", "CompoundAssignOperator") and st["op"] in ("=", "+="):
                t = st["c"][0]
            if t is not None:
                ts = fn.s(fn.strip(t, casts=True))
                if ts["k"] == "DeclRefExpr" and ts["ref"]["n"] == "decimalPlaces":
                    bad = i
        ctx.ob(rule, "decomposeFloat only decrements decimalPlaces", bad is None, fn.where if bad is None else fn.loc(bad),
               "" if bad is None else "decimalPlaces can grow: writeDecimals may need more than the constant passed in")

    # ---------------------------------------------------------------- R-COUNT
    from rules import c08
    sub = type(ctx)(ctx.prop, ctx.tier)
    sub.config = ctx.config
    # reuse the counting rules of C08 without its ladder rules
    rule = "R-COUNT"
    nc = 0
    for fn in prog.q("CountingDecorator::write"):
        nc += 1
        ok = False
        for i in fn.walk():
            st = fn.s(i)
            if st["k"] == "CompoundAssignOperator" and st["op"] == "+=":
                l = fn.s(fn.strip(st["c"][0], casts=True))
                r = fn.s(fn.strip(st["c"][1], casts=True))
                if l["k"] == "MemberExpr" and l["m"] == "count_" and r["k"] in P.CALL_KINDS and \
                        r.get("callee", {}).get("q", "").split("::")[-1] == "write":
                    ok = True
        ctx.ob(rule, "CountingDecorator::write(%s) counts what the writer reports" % ("byte" if len(fn.params) == 1 else "block"), ok, fn.where,
               "count_ += writer_.write(...)" if ok else
               "the count is not the writer's return value: with a truncating buffer or a writer reporting short writes the "
               "returned size differs from the bytes produced")
    ctx.floor(rule, "CountingDecorator::write instantiations", nc, 4)
    # unbounded writers return 1 / n
    for fn in sorted(prog.fns.values(), key=lambda f: f.key):
        cls = fn.cls.split("::")[-1]
        if fn.name != "write" or cls not in ("DummyWriter", "Writer"):
            continue
        full = fn.d.get("clsfull", "")
        unbounded = cls == "DummyWriter" or "basic_string" in full or "ostream" in full or "ostringstream" in full
        if not unbounded:
            continue
        rets = [j for j in fn.walk() if fn.s(j)["k"] == "ReturnStmt"]
        ok = False
        if len(rets) == 1:
            r = fn.s(fn.strip(fn.s(rets[0])["c"][0], casts=True))
            if len(fn.params) == 1:
                ok = r.get("cv") == "1" or r.get("v") == "1"
            else:
                ok = r["k"] == "DeclRefExpr" and r["ref"]["k"] == "parm" and r["ref"]["d"] == fn.params[1]["d"]
        ctx.ob(rule, "%s::write(%s) reports everything written" % (full.replace("ArduinoJson::detail::", "")[:60], "byte" if len(fn.params) == 1 else "block"), ok, fn.where,
               "" if ok else "an unbounded writer must return 1 / n", nontrivial=False)

    # ---------------------------------------------------------------- R-NUL
    nul.run(ctx, prog, rule="R-NUL", only_files=["Json/JsonSerializer.hpp", "Json/TextFormatter.hpp", "Json/PrettyJsonSerializer.hpp",
                                                 "Serialization/", "Variant/VariantData.hpp"])

    # ---------------------------------------------------------------- R-LOOPIDX
    loopidx(ctx, prog, files=("Json/", "Serialization/", "MsgPack/MsgPackSerializer.hpp", "Numbers/"))
    for r_ in ("R-BUFGUARD", "R-NULGUARD", "R-SCRATCH", "R-COUNT", "R-LOOPIDX"):
        ctx.doc(r_, [l.strip() for l in __doc__.split("\n") if l.startswith(r_)][0])


def loopidx(ctx, prog, files, rule="R-LOOPIDX"):
    n = 0
    for fn in sorted(prog.fns.values(), key=lambda f: f.key):
        if not fn.file.startswith(files):
            continue
        for li in fn.walk():
            ls = fn.s(li)
            if ls["k"] != "ForStmt" or ls.get("cond") is None:
                continue
            c = fn.s(fn.strip(ls["cond"], casts=True))
            if c["k"] != "BinaryOperator" or c["op"] not in ("<", "<=", "!="):
                continue
            a = fn.s(fn.strip(c["c"][0], casts=True))
            b = fn.s(fn.strip(c["c"][1], casts=True))
            if a["k"] != "DeclRefExpr" or a["ref"]["k"] != "local":
                continue
            if "cv" in b or b["k"] == "IntegerLiteral":
                continue
            ta, tb = a.get("tk", ""), b.get("tk", "")
            if not (ta[:1] in "su" and tb[:1] in "su" and ta[1:].isdigit() and tb[1:].isdigit()):
                continue
            n += 1
            ok = int(ta[1:]) >= int(tb[1:])
            ctx.ob(rule, "%s: index %s is as wide as its bound %s" % (fn.short, a["ref"]["n"], fn.text(c["c"][1])), ok, fn.loc(li),
                   "%s vs %s" % (ta, tb) if ok else
                   "the index is %s but the bound is %s: once the bound exceeds %d the index wraps and the loop never ends" % (ta, tb, (1 << int(ta[1:])) - 1),
                   nontrivial=False)
    ctx.count(rule + ":loops", n)
