"""C03 — deserializers are memory-safe, input-bounded and source-independent
(structural clauses; termination and absence of every other UB NOT decided).

R-LATCH    (JSON) no read after a possible terminator: latch typestate by
           abstract interpretation (rules/latch.py).
R-BOUNDED  bounded readers: every dereference of ptr_ in IteratorReader is
           dominated by ptr_ < end_; BoundedReader passes ptr, ptr+len.
R-READER   reader sibling table: data bytes are returned as unsigned values.
R-WRAP     (MsgPack) the reader is called only through readByte/readBytes/
           skipBytes, each turning a short read into IncompleteInput.
R-EXTENT   (MsgPack) every readBytes into a local array stays inside it, for
           each of the 256 first bytes (constant propagation, as C09).
R-LEN      length cap before allocation (StringNode::create/resize).
R-ACCW     announced sizes are accumulated in at least 32 bits.
R-NUMBUF   the JSON number buffer is never overrun.
R-NULLDST  null-destination discipline with a filter (+ R-FILTERIDX).
"""
from lib import absint
from lib import prog as P
from rules import latch, nulldst, c16, c19, jsonparse


def r_bounded(ctx, prog, rule="R-BOUNDED"):
    n = 0
    for fn in sorted(prog.fns.values(), key=lambda f: f.key):
        if not (fn.cls.endswith("IteratorReader") or fn.cls.endswith("BoundedReader")) or fn.name not in ("read", "readBytes"):
            continue
        for i in fn.walk():
            st = fn.s(i)
            isderef = st["k"] == "UnaryOperator" and st["op"] == "*"
            isflash = st["k"] in P.CALL_KINDS and st.get("callee", {}).get("q", "").split("::")[-1] in ("pgm_read_byte",)
            if isflash:
                st = dict(st)
                st["c"] = [st["args"][0] if st.get("callee", {}).get("q", "").endswith("pgm_read_byte") else st["args"][1]]
            if isderef or isflash:
                root = None
                for j in fn.walk(st["c"][0]):
                    sj = fn.s(j)
                    if sj["k"] == "MemberExpr" and sj["m"] == "ptr_":
                        root = j
                if root is None:
                    continue
                n += 1
                ok = False
                for cond, pol in fn.guards_of(i):
                    c = fn.s(fn.strip(cond, casts=True))
                    if c["k"] in ("BinaryOperator", "CXXOperatorCallExpr"):
                        txt = fn.text(fn.strip(cond, casts=True))
                        names = [fn.s(x).get("m") for x in fn.walk(cond) if fn.s(x)["k"] == "MemberExpr"]
                        op = c.get("op") or c.get("callee", {}).get("q", "").split("operator")[-1]
                        if names[:2] == ["ptr_", "end_"] and ((op == "<" and pol) or (op == ">=" and not pol) or (op == "!=" and pol)):
                            ok = True
                ctx.ob(rule, "%s::%s dereferences ptr_ only while ptr_ < end_" % (fn.d.get("clsfull", "IteratorReader").replace("ArduinoJson::detail::", "")[:60], fn.name), ok, fn.loc(i),
                       "" if ok else "the input pointer is dereferenced without the ptr_ < end_ test: a byte beyond the supplied input is read", nontrivial=False)
    ctx.floor(rule, "dereferences in IteratorReader", n, 2)
    for fn in sorted(prog.fns.values(), key=lambda f: f.key):
        if fn.cls.endswith("BoundedReader") and fn.d.get("ctor") and len(fn.params) == 2:
            ok = False
            for ini in fn.d.get("inits", []):
                for j in fn.walk(ini["e"]):
                    sj = fn.s(j)
                    if sj["k"] == "CXXConstructExpr" and len(sj.get("args", [])) == 2:
                        a1 = fn.text(sj["args"][1])
                        ok = ok or ("+" in a1 and fn.params[1]["n"] in a1 and fn.params[0]["n"] in a1)
                if ini["m"] == "end_":
                    a1 = fn.text(ini["e"])
                    ok = ok or ("+" in a1 and fn.params[1]["n"] in a1)
            ctx.ob(rule, "BoundedReader(ptr,len) ends at ptr+len", ok, fn.where, "", nontrivial=False)


def r_extent(ctx, prog, rule="R-EXTENT"):
    EM = ("MsgPackDeserializer::readBytes",)
    it = absint.Interp(prog, emit=EM)
    cands = sorted(prog.q("MsgPackDeserializer::parseVariant"), key=lambda f: f.key)[:1]
    targets = cands + sorted(prog.q("MsgPackDeserializer::readInteger"), key=lambda f: f.key)[:1] + \
        [f for f in sorted(prog.q("MsgPackDeserializer::readDouble"), key=lambda f: f.key)][:2] + \
        [f for f in sorted(prog.q("MsgPackDeserializer::readFloat"), key=lambda f: f.key)][:1]
    n = 0
    for fn in targets:
        extents = {}
        for i in fn.walk():
            st = fn.s(i)
            if st["k"] == "DeclStmt":
                for d in st["decls"]:
                    if d.get("extent"):
                        extents[d["n"]] = d["extent"]
                    elif d.get("tk", "")[:1] in ("f", "u", "s") and d["tk"][1:].isdigit():
                        extents[d["n"]] = int(d["tk"][1:]) // 8
        runs = [{"code": (c, c)} for c in range(256)] if fn.name == "parseVariant" else \
               ([{"width": (w, w)} for w in (1, 2, 4, 8)] if fn.name == "readInteger" else [{}])
        worst = {}
        for pc in runs:
            it.n_paths = 0
            env = {}
            for prm in fn.params:
                if prm["n"] == "width":
                    env[prm["d"]] = ("s", "width", 0)
            for path in it.run(fn, env, pc):
                for e in path.events:
                    if e[0] != "call" or len(e[2]) < 1:
                        continue
                    ptr = e[2][0][2]
                    txt = fn.text(ptr)
                    base = None
                    off = 0
                    for nm in extents:
                        if txt == nm or txt.startswith(nm + " ") or txt.startswith("(" + nm) or txt.startswith("&" + nm) or txt.startswith("(void *)" + nm) or nm in txt.split()[0:1]:
                            base = nm
                    if base is None:
                        for nm in extents:
                            if nm in txt:
                                base = nm
                    if base is None:
                        continue
                    # offset: header + 1
                    ps = fn.s(fn.strip(ptr, casts=True))
                    if ps["k"] == "BinaryOperator" and ps["op"] == "+":
                        off = fn.const(ps["c"][1]) or 0
                    if len(e[2]) >= 2:
                        nv = e[2][1][0]
                        if absint.is_c(nv):
                            nbytes = nv[1]
                        elif absint.is_s(nv) and len(nv) == 3:
                            nbytes = path.rng(nv[1])[1] + nv[2]
                        else:
                            nbytes = None
                    else:
                        nbytes = extents[base]   # readBytes(T& value) reads sizeof(value)
                    key = (fn.short, base)
                    cur = worst.get(key, (0, e[3]))
                    tot = None if nbytes is None else off + nbytes
                    if tot is None or cur[0] is None:
                        worst[key] = (None, e[3])
                    elif tot > cur[0]:
                        worst[key] = (tot, e[3])
        for (short, base), (tot, at) in sorted(worst.items()):
            n += 1
            ext = extents[base]
            ok = tot is not None and tot <= ext
            ctx.ob(rule, "%s: reads into %s[%d] stay inside" % (short, base, ext), ok, fn.loc(at),
                   "at most %s bytes" % tot if ok else
                   "up to %s bytes are read into %s, which holds %d: the header/number buffer on the stack is overrun by input data" % (tot, base, ext))
    ctx.floor(rule, "local read buffers", n, 3)


def run(ctx, prog):
    from rules import rawio
    rawio.run(ctx, prog, writers=False)
    from rules import nulldata
    nulldata.run(ctx, prog)
    latch.run(ctx, prog, want_c16=False)
    r_bounded(ctx, prog)
    c16.r_reader(ctx, prog)
    c16.r_readerkind(ctx, prog)
    r_extent(ctx, prog)
    c19.r_len(ctx, prog)
    c19.r_accw(ctx, prog)
    jsonparse.r_numbuf(ctx, prog)
    nulldst.run(ctx, prog)
    # R-WRAP from c09
    from rules import c09
    sub = type(ctx)(ctx.prop, ctx.tier)
    sub.config = ctx.config
    c09.run(sub, prog)
    for o in sub.obs:
        if o.rule == "R-WRAP":
            ctx.obs.append(o)
    for r_ in ("R-BOUNDED", "R-EXTENT", "R-WRAP"):
        ctx.doc(r_, [l.strip() for l in __doc__.split("\n") if l.startswith(r_)][0])
    ctx.doc("R-READER", "Reader::read() returns data bytes as unsigned 8-bit values")
    ctx.doc("R-LEN", "length check dominates allocation and narrowing")
    ctx.doc("R-ACCW", "size accumulators are at least 32 bits")
