"""C04 — the document is the tree its API describes (structural clauses).

R-CBS     clear-before-set typestate (rules/cbs.py).
R-STABLE  reference stability: no insertion / removal / assignment path
          reaches a function that moves or frees a slot block
          (MemoryPool::shrinkToFit / destroy, MemoryPoolList::shrinkToFit /
          clear) — only clear()/shrinkToFit()/destruction of the document do;
          slots_ is written only by create/destroy/shrinkToFit.
R-RO      read-only operations change nothing (typed write analysis).
R-COVER   swap exchanges every owning field (shared with C06).
R-KEYVAL  object members alternate key slot / value slot: a key lookup
          compares key slots only.
"""
from lib import prog as P
from rules import cbs, purity


MUTATORS = ("ArrayData::addElement", "ArrayData::addValue", "ArrayData::removeElement", "ArrayData::getOrAddElement",
            "ObjectData::addMember", "ObjectData::removeMember", "ObjectData::getOrAddMember",
            "CollectionData::removeOne", "CollectionData::removePair", "CollectionData::appendOne",
            "CollectionData::appendPair", "VariantData::setString", "VariantData::setInteger",
            "VariantData::setFloat", "VariantData::setBoolean", "VariantData::toArray", "VariantData::toObject",
            "VariantData::addElement", "VariantData::addValue", "VariantData::getOrAddMember",
            "VariantData::getOrAddElement", "VariantData::removeElement", "VariantData::removeMember",
            "CollectionData::clear", "VariantData::clear", "ResourceManager::freeVariant",
            "ResourceManager::allocVariant", "ResourceManager::allocExtension", "ResourceManager::freeExtension")
MOVERS = ("MemoryPool::shrinkToFit", "MemoryPool::destroy", "MemoryPoolList::shrinkToFit", "MemoryPoolList::clear",
          "ResourceManager::shrinkToFit", "ResourceManager::clear")


def run(ctx, prog):
    cbs.run(ctx, prog)
    # ---------------------------------------------------------------- R-STABLE
    rule = "R-STABLE"
    movers = {f.key for f in prog.q(*MOVERS)}
    n = 0
    for name in MUTATORS:
        fl = prog.q(name)
        if not fl:
            continue
        n += 1
        bad = None
        for f in fl:
            reach = prog.reachable([f.key])
            hit = reach & movers
            if hit:
                path = prog.find_path(f.key, hit)
                bad = (f, path)
                break
        ctx.ob(rule, "%s never moves or frees slot blocks" % name, bad is None, fl[0].where,
               "%d instantiation(s)" % len(fl) if bad is None else
               "reaches %s: references to other values of the document are invalidated by this mutation (path %s)" %
               (prog.fns[bad[1][-1]].short, " -> ".join(prog.fns[k].short for k in bad[1])))
    ctx.floor(rule, "mutating primitives", n, 20)
    writers = set()
    for fn in prog.fns.values():
        for i in fn.walk():
            st = fn.s(i)
            if st["k"] in ("BinaryOperator", "CompoundAssignOperator") and st["op"] == "=":
                l = fn.s(fn.strip(st["c"][0], casts=True))
                if l["k"] == "MemberExpr" and l["m"] == "slots_" and (l.get("rec") or "").endswith("MemoryPool"):
                    writers.add(fn.short)
    ok = writers <= {"MemoryPool::create", "MemoryPool::destroy", "MemoryPool::shrinkToFit"}
    ctx.ob(rule, "slots_ is written only by create/destroy/shrinkToFit", ok, "Memory/MemoryPool.hpp", str(sorted(writers)))

    # ---------------------------------------------------------------- R-RO
    purity.check_readonly(ctx, prog, "R-RO", want_alloc=False, want_writes=True)

    # ---------------------------------------------------------------- R-COVER (swap)
    from rules import c06
    sub = type(ctx)(ctx.prop, ctx.tier)
    sub.config = ctx.config
    c06.run(sub, prog)
    for o in sub.obs:
        if o.rule == "R-COVER":
            ctx.obs.append(o)
    for b in sub.broken:
        if "R-COVER" in b:
            ctx.broken.append(b)

    # ---------------------------------------------------------------- R-KEYVAL
    rule = "R-KEYVAL"
    nf = 0
    for fn in prog.q("ObjectData::findKey"):
        nf += 1
        # the comparison with the key must be guarded by a flag that toggles every iteration
        cmp_calls = [i for i, st in fn.calls() if st["callee"]["q"].endswith("stringEquals")]
        ok = False
        why = "no key comparison found"
        for ci in cmp_calls:
            flags = []
            for cond, pol in fn.guards_of(ci):
                c = fn.s(fn.strip(cond, casts=True))
                if c["k"] == "DeclRefExpr" and c["ref"]["k"] == "local" and c.get("tk") == "bool" and pol:
                    flags.append(c["ref"]["d"])
            toggled = False
            for fl in flags:
                for j in fn.walk():
                    sj = fn.s(j)
                    if sj["k"] == "BinaryOperator" and sj["op"] == "=":
                        l = fn.s(fn.strip(sj["c"][0], casts=True))
                        r = fn.s(fn.strip(sj["c"][1], casts=True))
                        if l["k"] == "DeclRefExpr" and l["ref"]["d"] == fl and r["k"] == "UnaryOperator" and r["op"] == "!":
                            rr = fn.s(fn.strip(r["c"][0], casts=True))
                            if rr["k"] == "DeclRefExpr" and rr["ref"]["d"] == fl:
                                toggled = True
            ok = bool(flags) and toggled
            why = "comparison guarded by a flag toggled each slot" if ok else \
                "every slot is compared with the key, value slots included: a string value equal to a key is taken for that key"
        ctx.ob(rule, "findKey compares key slots only", ok, fn.where, why)
    ctx.floor(rule, "ObjectData::findKey instantiations", nf, 3)
    ctx.doc("R-STABLE", "no mutation path reaches a function that moves/frees slot blocks")
    ctx.doc("R-RO", "read-only entry points reach no write into document memory")
    ctx.doc("R-KEYVAL", "key lookup alternates key/value slots")
