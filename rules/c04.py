"""C04 — the document is the tree its API describes (structural clauses).

R-CBS     clear-before-set typestate (rules/cbs.py).
R-STABLE  reference stability: no insertion / removal / assignment path
          reaches a function that moves or frees a slot block
          (MemoryPool::shrinkToFit / destroy, MemoryPoolList::shrinkToFit /
          clear) — only clear()/shrinkToFit()/destruction of the document do;
          slots_ is written only by create/destroy/shrinkToFit.
R-RO      read-only operations change nothing (typed write analysis).
R-COVER   swap exchanges every owning field (shared with C06).
R-KEYVAL  object members alternate key slot / value slot: a key lookup
          compares key slots only.
R-UNLINK  CollectionData::removeOne: on every path to the release of the
          slot, head_ has been re-seated unless the slot is known to have a
          predecessor, tail_ has been re-seated unless it is known to have a
          successor, and a known predecessor has been re-linked
          (setNext(next)): nothing in the list still designates the slot
          that goes back to the free list.
"""
from lib import prog as P
from rules import cbs, purity


MUTATORS = ("ArrayData::addElement", "ArrayData::addValue", "ArrayData::removeElement", "ArrayData::getOrAddElement",
            "ObjectData::addMember", "ObjectData::removeMember", "ObjectData::getOrAddMember",
            "CollectionData::removeOne", "CollectionData::removePair", "CollectionData::appendOne",
            "CollectionData::appendPair", "VariantData::setString", "VariantData::setInteger",
            "VariantData::setFloat", "VariantData::setBoolean", "VariantData::toArray", "VariantData::toObject",
            "VariantData::addElement", "VariantData::addValue", "VariantData::getOrAddMember",
            "VariantData::getOrAddElement", "VariantData::removeElement", "VariantData::removeMember",
            "CollectionData::clear", "VariantData::clear", "ResourceManager::freeVariant",
            "ResourceManager::allocVariant", "ResourceManager::allocExtension", "ResourceManager::freeExtension")
MOVERS = ("MemoryPool::shrinkToFit", "MemoryPool::destroy", "MemoryPoolList::shrinkToFit", "MemoryPoolList::clear",
          "ResourceManager::shrinkToFit", "ResourceManager::clear")


def run(ctx, prog):
    cbs.run(ctx, prog)
    # ---------------------------------------------------------------- R-STABLE
    rule = "R-STABLE"
    movers = {f.key for f in prog.q(*MOVERS)}
    n = 0
    for name in MUTATORS:
        fl = prog.q(name)
        if not fl:
            continue
        n += 1
        bad = None
        for f in fl:
            reach = prog.reachable([f.key])
            hit = reach & movers
            if hit:
                path = prog.find_path(f.key, hit)
                bad = (f, path)
                break
        ctx.ob(rule, "%s never moves or frees slot blocks" % name, bad is None, fl[0].where,
               "%d instantiation(s)" % len(fl) if bad is None else
               "reaches %s: references to other values of the document are invalidated by this mutation (path %s)" %
               (prog.fns[bad[1][-1]].short, " -> ".join(prog.fns[k].short for k in bad[1])))
    ctx.floor(rule, "mutating primitives", n, 20)
    writers = set()
    for fn in prog.fns.values():
        for i in fn.walk():
            st = fn.s(i)
            if st["k"] in ("BinaryOperator", "CompoundAssignOperator") and st["op"] == "=":
                l = fn.s(fn.strip(st["c"][0], casts=True))
                if l["k"] == "MemberExpr" and l["m"] == "slots_" and (l.get("rec") or "").endswith("MemoryPool"):
                    writers.add(fn.short)
    ok = writers <= {"MemoryPool::create", "MemoryPool::destroy", "MemoryPool::shrinkToFit"}
    ctx.ob(rule, "slots_ is written only by create/destroy/shrinkToFit", ok, "Memory/MemoryPool.hpp", str(sorted(writers)))

    # ---------------------------------------------------------------- R-RO
    purity.check_readonly(ctx, prog, "R-RO", want_alloc=False, want_writes=True)

    # ---------------------------------------------------------------- R-COVER (swap)
    from rules import c06
    sub = type(ctx)(ctx.prop, ctx.tier)
    sub.config = ctx.config
    c06.run(sub, prog)
    for o in sub.obs:
        if o.rule == "R-COVER":
            ctx.obs.append(o)
    for b in sub.broken:
        if "R-COVER" in b:
            ctx.broken.append(b)

    keyval(ctx, prog)
    from rules import oncefree
    oncefree.run(ctx, prog)
    unlink(ctx, prog)
    alias(ctx, prog)
    iter_stale(ctx, prog)
    swap_all(ctx, prog)
    ctx.doc("R-STABLE", "no mutation path reaches a function that moves/frees slot blocks")
    ctx.doc("R-RO", "read-only entry points reach no write into document memory")
    ctx.doc("R-KEYVAL", "key lookup alternates key/value slots")


def unlink(ctx, prog, rule="R-UNLINK"):
    n = 0
    for fn in sorted(prog.q("CollectionData::removeOne"), key=lambda f: f.key):
        if fn.cfg is None:
            continue
        n += 1
        prev = nxt = None
        for i in fn.walk():
            st = fn.s(i)
            if st["k"] == "DeclStmt":
                for dd in st["decls"]:
                    if "init" not in dd:
                        continue
                    for j in fn.walk(dd["init"]):
                        sj = fn.s(j)
                        if sj["k"] in P.CALL_KINDS:
                            nm = sj.get("callee", {}).get("q", "").split("::")[-1]
                            if nm == "getPreviousSlot":
                                prev = dd["d"]
                            elif nm == "next" and nxt is None:
                                nxt = dd["d"]
        frees = [i for i, st in fn.calls() if st["callee"]["q"].split("::")[-1] in ("freeVariant", "releaseSlot", "freeSlot")]
        if prev is None or nxt is None or not frees:
            ctx.ob(rule, "removeOne: anchors", None, fn.where, "prev = getPreviousSlot(..), next = ..->next() or the release call not found")
            continue

        def refs(i, d):
            return any(fn.s(x)["k"] == "DeclRefExpr" and fn.s(x)["ref"]["d"] == d for x in fn.walk(i))

        def classify(cond):
            """('prev', True) when cond true means prev is non-null; ('next', True) when it means next == NULL_SLOT."""
            c = fn.s(fn.strip(cond, casts=True))
            neg = False
            while c["k"] == "UnaryOperator" and c["op"] == "!":
                neg = not neg
                c = fn.s(fn.strip(c["c"][0], casts=True))
            if c["k"] in P.CALL_KINDS and c.get("callee", {}).get("q", "").endswith("operator bool") and refs(fn.strip(cond, casts=True), prev):
                return ("prev", not neg)
            if c["k"] == "DeclRefExpr" and c["ref"]["d"] == prev:
                return ("prev", not neg)
            if c["k"] == "BinaryOperator" and c["op"] in ("==", "!="):
                a, b = c["c"]
                sa, sb = fn.s(fn.strip(a, casts=True)), fn.s(fn.strip(b, casts=True))
                names = {sa.get("ref", {}).get("n"), sb.get("ref", {}).get("n")}
                ds = {sa.get("ref", {}).get("d"), sb.get("ref", {}).get("d")}
                if nxt in ds and "NULL_SLOT" in names:
                    return ("next", (c["op"] == "==") != neg)
            if refs(cond, prev) or refs(cond, nxt) or any(fn.s(x)["k"] == "MemberExpr" and fn.s(x).get("m") in ("head_", "tail_") for x in fn.walk(cond)):
                return ("?", None)
            return None

        blocks = fn.blocks()
        free_blocks = {fn.block_of(i)[0]: i for i in frees if fn.block_of(i)}
        results = []      # (wrote_head, wrote_tail, relinked, prevk, nextk, unknown_cond)
        stack = [(fn.cfg["entry"], False, False, False, None, None, False, ())]
        seen = set()
        while stack:
            b, wh, wt, rl, pk, nk, unk, trail = stack.pop()
            if (b, wh, wt, rl, pk, nk, unk) in seen or len(seen) > 5000:
                continue
            seen.add((b, wh, wt, rl, pk, nk, unk))
            blk = blocks[b]
            done = False
            for e in blk["el"]:
                if not isinstance(e, int) or e < 0:
                    continue
                st = fn.s(e)
                if st["k"] == "BinaryOperator" and st["op"] == "=":
                    l = fn.s(fn.strip(st["c"][0], casts=True))
                    if l["k"] == "MemberExpr" and l.get("m") == "head_" and refs(st["c"][1], nxt):
                        wh = True
                    if l["k"] == "MemberExpr" and l.get("m") == "tail_" and refs(st["c"][1], prev):
                        wt = True
                if st["k"] in P.CALL_KINDS and st.get("callee", {}).get("q", "").endswith("setNext") and "obj" in st \
                        and refs(st["obj"], prev) and st.get("args") and refs(st["args"][0], nxt):
                    rl = True
                if e in frees:
                    results.append((wh, wt, rl, pk, nk, unk, trail, e))
                    done = True
                    break
            if done:
                continue
            succ = [x for x in blk["succ"]]
            if "cond" in blk and len(succ) == 2 and blk.get("termk") != "SwitchStmt":
                cl = classify(blk["cond"])
                for pol, s_ in ((True, succ[0]), (False, succ[1])):
                    if s_ < 0:
                        continue
                    pk2, nk2, unk2 = pk, nk, unk
                    if cl is not None:
                        if cl[0] == "prev":
                            v = cl[1] if pol else not cl[1]
                            if pk is not None and pk != v:
                                continue      # infeasible: same test, other outcome
                            pk2 = v
                        elif cl[0] == "next":
                            v = cl[1] if pol else not cl[1]
                            if nk is not None and nk != v:
                                continue
                            nk2 = v
                        else:
                            unk2 = True
                    stack.append((s_, wh, wt, rl, pk2, nk2, unk2, trail + ((fn.text(fn.strip(blk["cond"], casts=True)), pol),)))
            else:
                for s_ in succ:
                    if s_ >= 0:
                        stack.append((s_, wh, wt, rl, pk, nk, unk, trail))
        if not results:
            ctx.ob(rule, "removeOne: paths to the release", None, fn.where, "no path reaches the release call")
            continue
        verdict = {"head_": True, "tail_": True, "predecessor": True}
        why = {}
        for (wh, wt, rl, pk, nk, unk, trail, e) in results:
            tr = " && ".join(("%s" if pol else "!(%s)") % t for t, pol in trail) or "always"
            if not (wh or pk is True):
                verdict["head_"] = None if unk and verdict["head_"] else False if not unk else verdict["head_"]
                why.setdefault("head_", "on the path [%s] head_ is not re-seated although the slot may be the first one" % tr)
            if not (wt or nk is False):
                verdict["tail_"] = None if unk and verdict["tail_"] else False if not unk else verdict["tail_"]
                why.setdefault("tail_", "on the path [%s] tail_ is not re-seated although the slot may be the last one: tail_ keeps "
                                        "designating the released slot, and the next insertion links the new element behind it" % tr)
            if not (rl or pk is False):
                verdict["predecessor"] = None if unk and verdict["predecessor"] else False if not unk else verdict["predecessor"]
                why.setdefault("predecessor", "on the path [%s] the predecessor is not re-linked to the successor" % tr)
        for what in ("head_", "tail_", "predecessor"):
            ctx.ob(rule, "removeOne: %s no longer designates the released slot" % what, verdict[what], fn.loc(results[0][7]),
                   why.get(what, "%d paths to the release, each re-seats it or excludes the case by its branch conditions" % len(results)))
    ctx.floor(rule, "CollectionData::removeOne", n, 1)
    ctx.doc(rule, "removeOne leaves no head_/tail_/next link to the slot it releases (path-wise, with the prev/next tests as path conditions)")


VIEW_TYPES = ("JsonArrayConst", "JsonObjectConst", "JsonVariantConst", "JsonArray", "JsonObject", "JsonVariant", "JsonDocument")
DEST_CLASSES = ("JsonArray", "JsonObject", "JsonDocument")


def _no_owned_chars(fn, j, sd):
    """The use j of the string source is reachable only through true edges of
    tests made solely of isNull()/isLinked() calls on that source (a null or
    linked string owns no characters of the document).  `A || B` reaches its
    then-block by two edges, so this is an edge-removal reachability test, not
    a dominating guard."""
    pj = fn.block_of(j)
    if pj is None:
        return False
    cut = set()
    for blk, cond, succ in fn.branch_conditions():
        calls = [fn.s(x) for x in fn.walk(cond) if fn.s(x)["k"] in P.CALL_KINDS]
        if calls and all(c.get("callee", {}).get("q", "").split("::")[-1] in ("isNull", "isLinked") and "obj" in c and
                         fn.s(fn.strip(c["obj"], casts=True)).get("ref", {}).get("d") in sd for c in calls) and \
                not any(fn.s(x)["k"] == "UnaryOperator" and fn.s(x).get("op") == "!" for x in fn.walk(cond)):
            cut.add((blk["id"], succ[0]))
    if not cut:
        return False
    blocks = fn.blocks()
    seen, stack = set(), [fn.cfg["entry"]]
    while stack:
        x = stack.pop()
        if x in seen or x < 0:
            continue
        seen.add(x)
        for k_, s_ in enumerate(blocks[x]["succ"]):
            if s_ >= 0 and (x, s_) not in cut:
                stack.append(s_)
    return pj[0] not in seen


def alias(ctx, prog, rule="R-ALIAS"):
    """Assignment between values of the same document (C04: "including a
    value's own ancestors and descendants").  A copy routine has a source
    parameter of a document view type and a mutable destination (its object,
    or a JsonVariant parameter).  If it empties the destination (clear(),
    to<T>()) and reads the source afterwards, and no dominating test excludes
    that the two designate the same storage, then assigning a value to itself
    or an ancestor to its descendant loses the source before it is read."""
    n = 0
    seen = set()
    for fn in sorted(prog.fns.values(), key=lambda f: f.key):
        if fn.cfg is None or not fn.params:
            continue
        cls = fn.cls.split("::")[-1].split("<")[0]
        srcs = []
        for p in fn.params:
            base = (p.get("tr") or p["t"]).replace("const ", "").replace("&", "").strip().split("::")[-1]
            if base in VIEW_TYPES and p["n"] in ("src", "source", "rhs", "other", "value"):
                srcs.append(p)
            # an adapted string may designate characters owned by the destination
            # itself (v.set(v.as<JsonString>())): D20
            elif fn.cls.split("::")[-1] == "VariantData" and fn.name == "setString" and p["n"] == "value" and \
                    ("String" in base or "TAdaptedString" in p["t"]):
                srcs.append(p)
        if not srcs:
            continue
        dst_is_this = cls in DEST_CLASSES and fn.name in ("set", "operator=", "copyFrom")
        dst_params = [p for p in fn.params if p["n"] in ("dst", "dest") and (p.get("tr") or p["t"]).split("::")[-1].startswith("JsonVariant")]
        dst_params += [p for p in fn.params if p["n"] == "var" and "VariantData" in (p.get("tr") or p["t"]) and
                       fn.cls.split("::")[-1] == "VariantData" and fn.name == "setString"]
        if not dst_is_this and not dst_params:
            continue
        sd = {p["d"] for p in srcs}
        # clear-like calls on the destination
        clears = []
        for i, st in fn.calls():
            nm = st["callee"]["q"].split("::")[-1]
            if nm not in ("clear", "to"):
                continue
            o = fn.s(fn.strip(st["obj"], casts=True)) if "obj" in st else {"k": "CXXThisExpr"}
            on_this = o["k"] == "CXXThisExpr"
            on_dst = o["k"] == "DeclRefExpr" and o["ref"]["d"] in {p["d"] for p in dst_params}
            if (dst_is_this and on_this) or on_dst:
                clears.append(i)
        if not clears:
            continue
        # a use of the source evaluated after the clear
        hazard = None
        for c in clears:
            pc = fn.block_of(c)
            for j in fn.walk():
                sj = fn.s(j)
                if sj["k"] == "DeclRefExpr" and sj["ref"]["d"] in sd:
                    if fn.name == "setString" and _no_owned_chars(fn, j, sd):
                        continue    # a null or linked string owns no characters of the document
                    pj = fn.block_of(j)
                    if pc is None or pj is None:
                        continue
                    later = (pj[0] == pc[0] and pj[1] > pc[1]) or (pj[0] != pc[0] and pj[0] in fn.reach_from([pc[0]]))
                    # the source passed to the very call whose object is the clear-like call
                    par = fn.parent(c)
                    same_call = False
                    while par is not None:
                        sp = fn.s(par)
                        if sp["k"] in P.CALL_KINDS and any(j in set(fn.walk(a)) for a in sp.get("args", [])):
                            same_call = True
                        par = fn.parent(par)
                    if later or same_call:
                        hazard = (c, j)
                        break
            if hazard:
                break
        if not hazard:
            continue
        # identity guard
        guarded = False
        for cond, pol in fn.guards_of(hazard[0]):
            cn = [fn.s(x) for x in fn.walk(cond)]
            c0 = fn.s(fn.strip(cond, casts=True))
            if c0["k"] in ("BinaryOperator", "CXXOperatorCallExpr") and c0.get("op") in ("==", "!=") and \
                    any(x["k"] == "DeclRefExpr" and x["ref"]["d"] in sd for x in cn) and \
                    any((x["k"] == "MemberExpr" and x.get("m") in ("data_", "resources_")) or
                        (x["k"] in P.CALL_KINDS and x.get("callee", {}).get("q", "").split("::")[-1] in ("getData", "getOrCreateData")) for x in cn):
                guarded = True
        stype = (srcs[0].get("tr") or srcs[0]["t"]).replace("const ", "").replace("&", "").strip().split("::")[-1]
        if fn.d.get("targs"):
            stype = "T"         # one finding for all instantiations of a member template
        inst = "%s(%s) reads its source before emptying the destination" % (fn.short.split("<")[0], stype)
        if inst in seen:
            continue
        seen.add(inst)
        n += 1
        ctx.ob(rule, inst, guarded, fn.loc(hazard[0]),
               "identity test dominates the clear" if guarded else
               ("%s releases the destination's string and %s is read afterwards; nothing excludes that the characters belong to the string "
                "just released: `v.set(v.as<JsonString>())` on a copied string reads freed memory in StringPool::add (D20)" %
                (fn.text(hazard[0])[:50], fn.s(hazard[1])["ref"]["n"])) if fn.name == "setString" else
               "%s empties the destination and %s is read afterwards; nothing excludes that the source is the destination or lies inside "
               "it: `doc[0] = doc[0]` turns [[1,2,3]] into [[]], `a.set(a)` empties a, `doc[\"a\"] = doc[\"a\"][\"b\"]` yields {\"a\":[null]}" %
               (fn.text(hazard[0])[:50], fn.s(hazard[1])["ref"]["n"]))
    ctx.floor(rule, "copy routines with a document-view source", n, 3)
    ctx.doc(rule, alias.__doc__.strip().replace("\n", " "))


def iter_stale(ctx, prog, rule="R-ITERNEXT"):
    """Removal while iterating (C04: references to other values stay valid
    across removals): CollectionIterator caches the id of the successor
    because the current slot may have been released and recycled since it was
    reached.  In next(), slot_ is stale until it is re-seated: it is not
    dereferenced before an assignment to slot_ on the same path."""
    from lib import typestate
    fns = sorted(prog.q("CollectionIterator::next"), key=lambda f: f.key)
    for fn in fns[:1]:
        def is_slot(i):
            st = fn.s(fn.strip(i, casts=True))
            return st["k"] == "MemberExpr" and st.get("m") == "slot_" and (not st["c"] or fn.s(fn.strip(st["c"][0], casts=True))["k"] == "CXXThisExpr")

        def transfer(fn_, e, s_):
            st = fn_.s(e)
            if st["k"] == "BinaryOperator" and st["op"] == "=" and is_slot(st["c"][0]):
                return ("fresh",)
            return (s_,)

        def check(fn_, e, s_):
            st = fn_.s(e)
            if s_ == "stale" and st["k"] == "MemberExpr" and st.get("arrow") and st["c"] and is_slot(st["c"][0]):
                return "slot_ is dereferenced before it is re-seated"
            if s_ == "stale" and st["k"] in P.CALL_KINDS and "obj" in st and is_slot(st["obj"]) and st.get("callee", {}).get("q", "").split("::")[-1] != "operator bool":
                return "slot_ is dereferenced before it is re-seated"
            return None
        reports, _x, err = typestate.analyse(fn, "stale", transfer, None, check)
        ok = not reports and not err
        ctx.ob(rule, "CollectionIterator::next() does not read through the slot it is leaving", None if err else ok, fn.where if ok else fn.loc(reports[0][0]),
               "the successor comes from the cached id" if ok else
               "next() reads the successor from the slot it is leaving (%s): after remove(it) that slot is released and may already hold "
               "another value, so ++it walks into the wrong list" % fn.text(reports[0][0]))
    ctx.floor(rule, "CollectionIterator::next", len(fns), 1)
    ctx.doc(rule, iter_stale.__doc__.strip().replace("\n", " "))


def swap_all(ctx, prog, rule="R-SWAPALL"):
    """swap of two documents exchanges every pool entry: a loop that exchanges
    a[i] and b[i] element by element runs over the whole table (a constant
    bound), not over the number of entries one of the two sides uses —
    otherwise the entries only the other side uses are not handed over."""
    n = 0
    for fn in sorted(prog.fns.values(), key=lambda f: f.key):
        if fn.name != "swap" or not fn.file.startswith("Memory/MemoryPoolList") or len(fn.params) != 2:
            continue
        pd = [p["d"] for p in fn.params]
        for li in fn.walk():
            ls = fn.s(li)
            if ls["k"] not in ("ForStmt", "WhileStmt") or ls.get("body") is None or ls.get("cond") is None:
                continue
            exchanges = False
            for j in fn.walk(ls["body"]):
                sj = fn.s(j)
                if sj["k"] in P.CALL_KINDS and sj.get("callee", {}).get("q", "").split("::")[-1] in ("swap_", "swap") and len(sj.get("args", [])) == 2:
                    bases = set()
                    for a in sj["args"]:
                        for x in fn.walk(a):
                            sx = fn.s(x)
                            if sx["k"] == "DeclRefExpr" and sx["ref"]["d"] in pd:
                                bases.add(sx["ref"]["d"])
                    if len(bases) == 2:
                        exchanges = True
            if not exchanges:
                continue
            n += 1
            used = {fn.s(x)["ref"]["d"] for x in fn.walk(ls["cond"]) if fn.s(x)["k"] == "DeclRefExpr" and fn.s(x)["ref"]["d"] in pd}
            ok = len(used) != 1
            ctx.ob(rule, "swap(MemoryPoolList): the element-wise exchange covers both sides", ok, fn.loc(ls["cond"]),
                   "bound %s" % fn.text(ls["cond"]) if ok else
                   "the loop exchanging the inline pool entries is bounded by %s, a count of one side only: when the other document uses "
                   "more pools its surplus entries are not handed over and its slot ids resolve into stale pools after the swap" % fn.text(ls["cond"]))
    ctx.floor(rule, "element-wise exchange loops in swap(MemoryPoolList)", n, 1)
    ctx.doc(rule, swap_all.__doc__.strip().replace("\n", " "))


def keyval(ctx, prog, rule="R-KEYVAL"):
    """Object members alternate key slot / value slot: a key lookup compares
    key slots only and reports a match only when stringEquals held."""
    nf = 0
    for fn in prog.q("ObjectData::findKey"):
        nf += 1
        # forward typestate over (values of the boolean locals, parity of the slot the iterator rests on):
        # createIterator leaves it on slot 0 (a key); every next() flips the parity; a boolean local is
        # tracked through `b = true/false`, `b = !b` and tests of b.  The key is compared only at parity 0.
        from lib import typestate
        bools = set()
        for j in fn.walk():
            sj = fn.s(j)
            if sj["k"] == "DeclStmt":
                for dd in sj["decls"]:
                    if dd.get("tk") == "bool":
                        bools.add(dd["d"])

        def _flag_val(fn_, e_, flags):
            r_ = fn_.s(fn_.strip(e_, casts=True))
            if r_["k"] == "CXXBoolLiteralExpr":
                return bool(r_["v"])
            if r_["k"] == "UnaryOperator" and r_["op"] == "!":
                v_ = _flag_val(fn_, r_["c"][0], flags)
                return None if v_ is None else (not v_)
            if r_["k"] == "DeclRefExpr" and r_["ref"]["d"] in bools:
                return dict(flags).get(r_["ref"]["d"])
            return None

        def _tr(fn_, e_, s_):
            flags, par = s_
            st_ = fn_.s(e_)
            if st_["k"] in P.CALL_KINDS and st_.get("callee", {}).get("q", "").endswith("CollectionIterator::next"):
                return ((flags, par ^ 1),)
            if st_["k"] == "DeclStmt":
                fl = dict(flags)
                for dd in st_["decls"]:
                    if dd["d"] in bools and "init" in dd:
                        fl[dd["d"]] = _flag_val(fn_, dd["init"], flags)
                return ((tuple(sorted(fl.items())), par),)
            if st_["k"] == "BinaryOperator" and st_["op"] == "=":
                l_ = fn_.s(fn_.strip(st_["c"][0], casts=True))
                if l_["k"] == "DeclRefExpr" and l_["ref"]["d"] in bools:
                    fl = dict(flags)
                    fl[l_["ref"]["d"]] = _flag_val(fn_, st_["c"][1], flags)
                    return ((tuple(sorted(fl.items())), par),)
            return (s_,)

        def _br(fn_, cond, pol, s_):
            if isinstance(cond, tuple):
                return s_
            flags, par = s_
            c_ = fn_.s(fn_.strip(cond, casts=True))
            neg_ = False
            while c_["k"] == "UnaryOperator" and c_["op"] == "!":
                neg_ = not neg_
                c_ = fn_.s(fn_.strip(c_["c"][0], casts=True))
            if c_["k"] == "DeclRefExpr" and c_["ref"]["d"] in bools:
                want = pol != neg_
                cur = dict(flags).get(c_["ref"]["d"])
                if cur is not None and cur != want:
                    return None
                fl = dict(flags)
                fl[c_["ref"]["d"]] = want
                return (tuple(sorted(fl.items())), par)
            return s_

        def _ck(fn_, e_, s_):
            st_ = fn_.s(e_)
            if st_["k"] in P.CALL_KINDS and st_.get("callee", {}).get("q", "").endswith("stringEquals") and s_[1] != 0:
                return "the key is compared with a value slot"
            return None
        reps, _x, err = typestate.analyse(fn, ((), 0), _tr, _br, _ck)
        ncmp = sum(1 for _i, st_ in fn.calls() if st_["callee"]["q"].endswith("stringEquals"))
        ok = None if (err or not ncmp) else not reps
        why = ("the iterator rests on a key slot (even position) at every comparison" if ok else
               "no key comparison found" if not ncmp else
               "every slot is compared with the key, value slots included: a string value equal to a key is taken for that key")
        ctx.ob(rule, "findKey compares key slots only", ok, fn.where, why)
        # the match exit: `return it` inside the loop only under stringEquals(...) true
        loops = [i for i in fn.walk() if fn.s(i)["k"] in ("ForStmt", "WhileStmt", "DoStmt", "CXXForRangeStmt")]
        for li in loops[:1]:
            body = set(fn.walk(fn.s(li).get("body"))) if fn.s(li).get("body") is not None else set()
            for r in sorted(body):
                if fn.s(r)["k"] != "ReturnStmt":
                    continue
                g = any(pol and fn.s(fn.strip(c, casts=True))["k"] in P.CALL_KINDS and
                        fn.s(fn.strip(c, casts=True)).get("callee", {}).get("q", "").endswith("stringEquals") for c, pol in fn.guards_of(r))
                ctx.ob(rule, "findKey reports a match only when stringEquals holds", g, fn.loc(r),
                       "" if g else "a member is returned on a path where stringEquals(key, stored key) was not established (e.g. a "
                       "pointer-identity shortcut): a shorter key that starts at the same address matches a longer stored key")
    ctx.floor(rule, "ObjectData::findKey instantiations", nf, 3)
    ctx.doc(rule, "key lookup alternates key/value slots; a match only under stringEquals")


def pool_match(ctx, prog, rule="R-POOLEQ"):
    """De-duplication is unobservable only if the pool lookup reports a node
    for strings that are equal, length included: StringPool::get returns a
    node from inside its scan only on a path where stringEquals(str, stored)
    held (a pointer-identity shortcut takes a shorter view of a pooled string
    for the pooled string)."""
    nf = 0
    for fn in sorted(prog.q("StringPool::get"), key=lambda f: f.key):
        if fn.cfg is None:
            continue
        nf += 1
        loops = [i for i in fn.walk() if fn.s(i)["k"] in ("ForStmt", "WhileStmt", "DoStmt", "CXXForRangeStmt")]
        nret = 0
        for li in loops[:1]:
            body = set(fn.walk(fn.s(li).get("body"))) if fn.s(li).get("body") is not None else set()
            for r in sorted(body):
                if fn.s(r)["k"] != "ReturnStmt":
                    continue
                # `return nullptr` inside the scan reports no match
                rv = fn.s(r).get("c") or []
                if rv and fn.s(fn.strip(rv[0], casts=True))["k"] in ("CXXNullPtrLiteralExpr", "GNUNullExpr") or \
                        (rv and fn.const(rv[0]) == 0):
                    continue
                nret += 1
                g = any(pol and fn.s(fn.strip(c, casts=True))["k"] in P.CALL_KINDS and
                        fn.s(fn.strip(c, casts=True)).get("callee", {}).get("q", "").endswith("stringEquals") for c, pol in fn.guards_of(r))
                ctx.ob(rule, "StringPool::get reports a node only when stringEquals holds", g, fn.loc(r),
                       "" if g else "a pooled node is returned on a path where stringEquals(str, stored string) was not established (e.g. a "
                       "pointer-identity shortcut): a shorter view that starts at the same address shares the longer stored string")
        if not loops or not nret:
            ctx.ob(rule, "StringPool::get scans the pool and reports matches", None, fn.where,
                   "no scan loop with a match exit found: the lookup changed shape, re-read it")
    ctx.floor(rule, "StringPool::get instantiations", nf, 3)
    ctx.doc(rule, pool_match.__doc__.strip().replace("\n", " "))
