"""C05 — allocation failure is reported and never corrupts the document
(structural clauses).

R-FALLIBLE  every call to a fallible allocation routine (frozen set F: the
            Allocator methods, pool/slot/string allocators, addElement /
            addMember / getOrAdd*, set* that may need an extension slot,
            StringBuffer::reserve) handles its result: it is returned,
            tested, or stored in a local that on every path is tested /
            returned / passed on before it is dereferenced, overwritten or
            dropped.  A discarded result is accepted only when that
            instantiation provably cannot fail (its failing return is under a
            condition that folds to a constant).
R-REALLOC   a reallocate() result is never stored over its own argument
            before being tested (the old block would be lost), except the
            frozen shrinking sites.
R-STICKY    in ResourceManager every failure edge of a pool/string
            allocation passes `overflowed_ = true` before returning; nothing
            outside Memory/ reaches the raw allocators except through
            ResourceManager.
R-LINK      appendOne/appendPair are reachable only from the success edges of
            every fallible call made earlier in the same function.
R-BUILDER   stores through node_->data in StringBuilder/StringBuffer are
            dominated by a non-null test of node_ (or of the local it was
            just assigned from).
R-NOMEM     in both deserializers the failure edge of every fallible call
            returns the enumerator NoMemory.
"""
from lib import prog as P
from rules.c06 import nonnull_edges, is_member_of_this, local_of

# bare-name suffix -> kind ('ptr' result null on failure, 'bool' false on failure)
F = {
    "Allocator::allocate": "ptr", "Allocator::reallocate": "ptr",
    "MemoryPool::allocSlot": "ptr", "MemoryPoolList::allocSlot": "ptr",
    "MemoryPoolList::allocFromLastPool": "ptr", "MemoryPoolList::addPool": "ptr",
    "MemoryPoolList::increaseCapacity": "bool",
    "StringNode::create": "ptr", "StringNode::resize": "ptr",
    "ResourceManager::allocVariant": "ptr", "ResourceManager::allocExtension": "ptr",
    "ResourceManager::createString": "ptr", "ResourceManager::resizeString": "ptr",
    "ArrayData::addElement": "ptr", "ArrayData::getOrAddElement": "ptr",
    "ObjectData::addMember": "ptr", "ObjectData::getOrAddMember": "ptr",
    "VariantData::addElement": "ptr", "VariantData::getOrAddElement": "ptr",
    "VariantData::getOrAddMember": "ptr",
    "VariantData::setString": "bool", "VariantData::setInteger": "bool",
    "VariantData::setFloat": "bool", "ArrayData::addValue": "bool",
    "VariantData::addValue": "bool", "StringBuffer::reserve": "ptr",
}
# saveString(TAdaptedString) and StringPool::add(str, allocator) are fallible,
# their StringNode* overloads are not
SHRINK_SITES = {
    ("MemoryPoolList::shrinkToFit", "Allocator::reallocate"): "realloc to a smaller size; C05 quantifies over growing reallocations",
    ("MemoryPool::shrinkToFit", "Allocator::reallocate"): "realloc to a smaller size, result tested, old block kept on failure",
    ("StringBuilder::save", "ResourceManager::resizeString"): "shrinks the builder's node to the final size",
    ("StringBuffer::save", "ResourceManager::resizeString"): "shrinks the buffer's node to the final size",
}
SCOPE_FILES = ("Memory/", "Collection/", "Array/ArrayImpl.hpp", "Array/ArrayData.hpp", "Object/ObjectImpl.hpp",
               "Object/ObjectData.hpp", "Variant/VariantData.hpp", "Variant/VariantImpl.hpp",
               "Json/JsonDeserializer.hpp", "MsgPack/MsgPackDeserializer.hpp", "Variant/JsonVariantCopier.hpp")


def fallible_kind(st):
    c = st.get("callee")
    if not c:
        return None
    q = c["q"]
    for suf, kind in F.items():
        if q.endswith("::" + suf) or q == suf:
            return kind
    if q.endswith("ResourceManager::saveString") and "StringNode *" not in c["key"].split("(")[-1]:
        return "ptr"
    if q.endswith("StringPool::add") and c.get("np") == 2:
        return "ptr"
    return None


def const_call_value(prog, fn, i):
    """Value of a boolean call whose callee body is `return <literal>`."""
    st = fn.s(fn.strip(i, casts=True))
    neg = False
    while st["k"] == "UnaryOperator" and st["op"] == "!":
        neg = not neg
        st = fn.s(fn.strip(st["c"][0], casts=True))
    v = None
    if "cv" in st:
        v = st["cv"] != "0"
    elif st["k"] in P.CALL_KINDS and "callee" in st:
        callee = prog.fns.get(st["callee"]["key"])
        if callee is not None:
            rets = [j for j in callee.walk() if callee.s(j)["k"] == "ReturnStmt"]
            if len(rets) == 1 and callee.s(rets[0])["c"]:
                r = callee.s(callee.strip(callee.s(rets[0])["c"][0], casts=True))
                if r["k"] == "CXXBoolLiteralExpr":
                    v = bool(r["v"])
                elif "cv" in r and r["k"] != "CallExpr" and not any(callee.s(x)["k"] == "DeclRefExpr" and callee.s(x)["ref"]["k"] == "parm" for x in callee.walk(rets[0])):
                    v = r["cv"] != "0"
    if v is None:
        return None
    return (not v) if neg else v


def can_fail(prog, fn, kind):
    """Does this instantiation have a feasible failing return?"""
    for j in fn.walk():
        st = fn.s(j)
        if st["k"] != "ReturnStmt" or not st["c"]:
            continue
        r = fn.s(fn.strip(st["c"][0], casts=True))
        failing = False
        if kind == "bool":
            failing = (r["k"] == "CXXBoolLiteralExpr" and r["v"] is False) or (r.get("cv") == "0" and r["k"] != "CallExpr")
        else:
            failing = r["k"] in ("CXXNullPtrLiteralExpr",) or r.get("cv") == "0" or \
                (r["k"] in ("InitListExpr", "CXXConstructExpr") and not r.get("args") and not [c for c in r["c"] if c is not None and c >= 0])
        if not failing and kind == "ptr" and r["k"] not in ("CXXNullPtrLiteralExpr",):
            # returns another expression: may be null if it is a fallible call
            if r["k"] in P.CALL_KINDS and fallible_kind(r):
                callee = prog.fns.get(r["callee"]["key"])
                if callee is None or can_fail(prog, callee, fallible_kind(r)):
                    return True
            elif r["k"] == "DeclRefExpr":
                return True
            continue
        if not failing and kind == "bool":
            if r["k"] in P.CALL_KINDS:
                return True
            continue
        # feasible?
        infeasible = False
        for cond, pol in fn.guards_of(j):
            v = const_call_value(prog, fn, cond)
            if v is not None and v != pol:
                infeasible = True
        if not infeasible:
            return True
    return False


def uses_of(fn, var_d):
    """{stmt id of DeclRefExpr: kind} for local var_d."""
    out = {}
    cond_nodes = {}
    for b in fn.cfg["blocks"]:
        if "cond" in b:
            for j in fn.walk(b["cond"]):
                cond_nodes[j] = b["id"]
    for j in fn.walk():
        st = fn.s(j)
        if st["k"] != "DeclRefExpr" or st["ref"]["d"] != var_d:
            continue
        kind = "other"
        cur = j
        for a in fn.ancestors(j):
            sa = fn.s(a)
            k = sa["k"]
            if k in P.TRANSPARENT or k in P.EXPLICIT_CASTS:
                cur = a
                continue
            if k == "MemberExpr":
                if sa.get("arrow"):
                    kind = "deref"
                else:
                    # v.method(): Slot::ptr()/id()/operator bool
                    cur = a
                    continue
                break
            if k == "CXXMemberCallExpr":
                nm = sa.get("callee", {}).get("q", "").split("::")[-1]
                if nm == "operator bool":
                    kind = "test"
                elif nm in ("ptr", "id"):
                    cur = a
                    continue
                elif sa.get("obj") is not None and cur in (sa["obj"], sa["c"][0]):
                    kind = "deref"
                else:
                    kind = "arg"
                break
            if k == "CXXOperatorCallExpr":
                nm = sa.get("callee", {}).get("q", "").split("::")[-1]
                if nm == "operator->" or nm == "operator*":
                    kind = "deref"
                elif nm == "operator=" and sa["args"] and sa["args"][0] == cur:
                    kind = "store"
                else:
                    kind = "arg"
                break
            if k in P.CALL_KINDS:
                kind = "arg"
                break
            if k == "UnaryOperator":
                if sa["op"] == "*":
                    kind = "deref"
                elif sa["op"] == "!":
                    kind = "test"
                else:
                    kind = "other"
                break
            if k == "ArraySubscriptExpr":
                kind = "deref"
                break
            if k == "BinaryOperator":
                if sa["op"] == "=" and sa["c"][0] == cur:
                    kind = "store"
                elif sa["op"] in ("==", "!=", "&&", "||"):
                    kind = "test"
                elif sa["op"] == "=":
                    kind = "arg"  # copied into something else
                else:
                    kind = "other"
                break
            if k == "ReturnStmt":
                kind = "return"
                break
            if k in ("IfStmt", "WhileStmt", "ForStmt", "DoStmt", "ConditionalOperator"):
                kind = "test"
                break
            if k in ("DeclStmt", "InitListExpr", "CXXConstructExpr"):
                kind = "arg"
                break
            break
        if j in cond_nodes and kind in ("other",):
            kind = "test"
        out[j] = kind
    return out


def must_use(fn, store_stmt, var_d):
    """Walk forward from the store: ('ok'|'deref'|'ignored', stmt id)."""
    uses = uses_of(fn, var_d)
    pos = fn.pos()
    pb = fn.block_of(store_stmt)
    if pb is None:
        return ("ok", store_stmt)
    blocks = fn.blocks()
    # elements after the store in its block
    start = (pb[0], pb[1] + 1)
    seen = set()
    stack = [start]
    # the store statement itself may contain the DeclRefExpr (assignment lhs)
    while stack:
        b, k = stack.pop()
        if (b, k) in seen:
            continue
        seen.add((b, k))
        blk = blocks[b]
        els = blk["el"]
        done = False
        for idx in range(k, len(els)):
            e = els[idx]
            if not isinstance(e, int):
                continue
            if e in uses:
                u = uses[e]
                if u in ("test", "return", "arg"):
                    done = True
                    break
                if u == "deref":
                    return ("deref", e)
                if u == "store":
                    return ("ignored", e)
        if done:
            continue
        if b == fn.cfg["exit"]:
            return ("ignored", store_stmt)
        succs = [s for s in blk["succ"] if s >= 0]
        if not succs and b != fn.cfg["exit"]:
            continue
        for s in succs:
            stack.append((s, 0))
    return ("ok", store_stmt)


def failure_edge(fn, call, kind, var_d=None):
    """[(failure successor block)] where the result is known null/false."""
    out = []
    for b, cond, succ in fn.branch_conditions():
        i = fn.strip(cond, casts=True)
        st = fn.s(i)
        neg = False
        while st["k"] == "UnaryOperator" and st["op"] == "!":
            neg = not neg
            i = fn.strip(st["c"][0], casts=True)
            st = fn.s(i)
        if st["k"] == "CXXMemberCallExpr" and st.get("callee", {}).get("q", "").endswith("operator bool"):
            i = fn.strip(st["obj"], casts=True)
            st = fn.s(i)
        hit = (i == call) or (var_d is not None and st["k"] == "DeclRefExpr" and st["ref"]["d"] == var_d)
        if hit and i != call and not fn.stmt_dominates(call, i):
            hit = False
        if hit:
            out.append(succ[0] if neg else succ[1])
    return out


def node_nonnull_at(fn, site, member="node_"):
    """Forward must-analysis: on every path to `site` the last event on
    this->node_ is a non-null test that held (no assignment since)."""
    from lib import typestate

    def is_member(i):
        st = fn.s(fn.strip(i, casts=True))
        return st["k"] == "MemberExpr" and st.get("m") == member and (not st["c"] or fn.s(fn.strip(st["c"][0], casts=True))["k"] == "CXXThisExpr")

    def transfer(fn_, e, s_):
        st = fn_.s(e)
        if st["k"] in ("BinaryOperator", "CompoundAssignOperator") and st["op"] == "=" and is_member(st["c"][0]):
            r = fn_.s(fn_.strip(st["c"][1], casts=True))
            return ("null",) if r["k"] in ("CXXNullPtrLiteralExpr", "GNUNullExpr") or r.get("cv") == "0" else ("unknown",)
        return (s_,)

    def branch(fn_, cond, pol, s_):
        if isinstance(cond, tuple):
            return s_
        c = cond
        neg = False
        while True:
            st = fn_.s(fn_.strip(c, casts=True))
            if st["k"] == "UnaryOperator" and st["op"] == "!":
                neg = not neg
                c = st["c"][0]
                continue
            break
        if is_member(c):
            truth = pol != neg
            if truth and s_ == "null":
                return None         # infeasible
            if not truth and s_ == "nonnull":
                return None
            return "nonnull" if truth else "null"
        return s_
    bad = []

    def check(fn_, e, s_):
        if e == site and s_ != "nonnull":
            return "node_ is %s here" % s_
        return None
    reports, _x, err = typestate.analyse(fn, "unknown", transfer, branch, check)
    return not reports and not err


def run(ctx, prog):
    from rules import jsonparse
    jsonparse.r_validafter(ctx, prog)
    from rules import nulldata
    nulldata.run(ctx, prog)
    false_only_on_failure(ctx, prog)
    cg, ext = prog.callgraph()
    rule = "R-FALLIBLE"
    n_sites = 0
    for fn in sorted(prog.fns.values(), key=lambda f: f.key):
        if not fn.file.startswith(SCOPE_FILES):
            continue
        for i, st in fn.calls():
            kind = fallible_kind(st)
            if not kind:
                continue
            n_sites += 1
            cq = st["callee"]["q"]
            cshort = "::".join(cq.split("::")[-2:])
            inst = "%s: result of %s" % (fn.short, cshort)
            # classify the direct context
            cur = i
            ctxk = None
            var = None
            member = None
            store_at = i
            for a in fn.ancestors(i):
                sa = fn.s(a)
                k = sa["k"]
                if k in P.TRANSPARENT or k in P.EXPLICIT_CASTS:
                    cur = a
                    continue
                if k == "ReturnStmt":
                    ctxk = "return"
                elif k == "UnaryOperator" and sa["op"] == "!":
                    ctxk = "test"
                elif k in ("IfStmt", "WhileStmt", "ConditionalOperator", "ForStmt") and sa.get("cond") == cur:
                    ctxk = "test"
                elif k == "BinaryOperator" and sa["op"] in ("&&", "||", "==", "!="):
                    ctxk = "test"
                elif k == "CXXMemberCallExpr" and sa.get("callee", {}).get("q", "").endswith("operator bool"):
                    ctxk = "test"
                elif k == "DeclStmt":
                    ctxk = "local"
                    var = sa["decls"][0]["d"]
                    store_at = a
                elif k == "BinaryOperator" and sa["op"] == "=" and sa["c"][1] == cur:
                    l = fn.s(fn.strip(sa["c"][0], casts=True))
                    if l["k"] == "DeclRefExpr" and l["ref"]["k"] in ("local", "parm"):
                        ctxk = "local"
                        var = l["ref"]["d"]
                        store_at = a
                    elif l["k"] == "MemberExpr":
                        ctxk = "member"
                        member = l["m"]
                    else:
                        ctxk = "other"
                elif k in P.CALL_KINDS and cur in sa.get("args", []):
                    ctxk = "arg"
                elif k == "CXXConstructExpr":
                    ctxk = "arg"
                elif k in ("CompoundStmt", "IfStmt", "ForStmt", "WhileStmt", "CaseStmt", "DefaultStmt", "SwitchStmt", "DoStmt"):
                    ctxk = "discard"
                elif k == "CXXMemberCallExpr" and sa.get("obj") == cur:
                    ctxk = "deref-direct"
                elif k == "MemberExpr":
                    ctxk = "deref-direct"
                else:
                    ctxk = "other:" + k
                break
            callee = prog.fns.get(st["callee"]["key"])
            cf = True if callee is None else can_fail(prog, callee, kind)
            if ctxk in ("return", "test", "arg"):
                ctx.ob(rule, inst, True, fn.loc(i), "result is %s" % {"return": "returned to the caller", "test": "tested", "arg": "passed on"}[ctxk])
            elif ctxk == "local":
                r, at = must_use(fn, store_at, var)
                if r == "ok" or not cf:
                    ctx.ob(rule, inst, True, fn.loc(i), "stored in a local that is tested / returned / passed on before any use"
                           if r == "ok" else "this instantiation cannot fail")
                elif r == "deref":
                    ctx.ob(rule, inst, False, fn.loc(at), "the result may be null (allocation failure) and is dereferenced before being tested: %s" % fn.text(fn.parent(at) or at))
                else:
                    ctx.ob(rule, inst, False, fn.loc(at),
                           "the result is overwritten or dropped without being tested: a failed allocation goes unnoticed and "
                           "the operation reports success (%s)" % fn.text(at))
            elif ctxk == "member":
                key = (fn.short, cshort)
                if key in SHRINK_SITES:
                    ctx.ob(rule, inst, True, fn.loc(i), "allowed: " + SHRINK_SITES[key], nontrivial=False)
                elif member == "node_":
                    ctx.ob(rule, inst, True, fn.loc(i), "stored in node_, whose every use is null-tested (R-BUILDER)")
                elif nonnull_edges(fn, member=member):
                    ctx.ob(rule, inst, True, fn.loc(i), "stored in member %s, which is null-tested in the same function" % member)
                else:
                    # handled by R-REALLOC below when it is a reallocate
                    ctx.ob(rule, inst, None if "reallocate" not in cq else True, fn.loc(i), "stored in member %s" % member)
            elif ctxk == "discard":
                if cf and kind == "bool" and not fn.cls.endswith("Deserializer"):
                    ctx.ob(rule, inst, True, fn.loc(i), "bool result dropped at the API boundary: the failure is reported "
                           "through the sticky overflowed flag (R-STICKY)", nontrivial=False)
                else:
                    ctx.ob(rule, inst, not cf, fn.loc(i),
                           "result discarded, but this instantiation has no feasible failing return" if not cf else
                           "the result of a fallible call is discarded: failure is neither reported nor propagated")
            elif ctxk == "deref-direct":
                ctx.ob(rule, inst, not cf, fn.loc(i), "result dereferenced without a test" if cf else "cannot fail")
            else:
                ctx.ob(rule, inst, None, fn.loc(i), "use of the result not understood (%s)" % ctxk)

            # ---- R-NOMEM
            if fn.cls.endswith("Deserializer") and cf and ctxk in ("test", "local"):
                fe = failure_edge(fn, i, kind, var)
                okn = None
                for fb in fe:
                    from rules.c15 import returns_enumerator
                    r = returns_enumerator(fn, fb, "NoMemory")
                    okn = r if okn is None else (okn and r)
                if fe:
                    ctx.ob("R-NOMEM", "%s: failure of %s returns NoMemory" % (fn.short, cshort), bool(okn), fn.loc(i),
                           "" if okn else "the failure edge does not return DeserializationError::NoMemory")
            # ---- R-REALLOC
            if cq.endswith("Allocator::reallocate") or cq.endswith("ResourceManager::resizeString") or cq.endswith("StringNode::resize"):
                if ctxk in ("member", "local") and st.get("args"):
                    a0 = fn.s(fn.strip(st["args"][0], casts=True))
                    same = False
                    if ctxk == "member" and a0["k"] == "MemberExpr" and a0["m"] == member:
                        same = True
                    if ctxk == "local" and a0["k"] == "DeclRefExpr" and a0["ref"]["d"] == var:
                        same = True
                    if same and cq.endswith("Allocator::reallocate"):
                        key = (fn.short, cshort)
                        ok = key in SHRINK_SITES
                        ctx.ob("R-REALLOC", "%s: reallocate result not stored over its argument" % fn.short, ok, fn.loc(i),
                               "allowed: " + SHRINK_SITES[key] if ok else
                               "the pointer passed to reallocate() is overwritten with the result before the result is tested: "
                               "when a growing reallocation fails the old block is lost and the container is left with a null "
                               "pointer and a non-zero count")
    ctx.floor(rule, "fallible call sites", n_sites, 40)

    # ------------------------------------------------------------ R-STICKY
    rule = "R-STICKY"
    ns = 0
    for fn in sorted(prog.fns.values(), key=lambda f: f.key):
        if not fn.cls.endswith("ResourceManager"):
            continue
        for i, st in fn.calls():
            q = st["callee"]["q"]
            raw = q.endswith(("MemoryPoolList::allocSlot", "StringNode::create", "StringNode::resize")) or \
                (q.endswith("StringPool::add") and st["callee"].get("np") == 2)
            if not raw:
                continue
            ns += 1
            var = None
            for a in fn.ancestors(i):
                sa = fn.s(a)
                if sa["k"] == "DeclStmt":
                    var = sa["decls"][0]["d"]
                    break
                if sa["k"] == "BinaryOperator" and sa["op"] == "=":
                    var = local_of(fn, sa["c"][0])
                    break
            fe = failure_edge(fn, i, "ptr", var)
            if not fe:
                # the result may be handed straight to a helper of ResourceManager that raises the flag
                # on its null branch (e.g. `return checkAllocation(StringNode::create(...))`)
                via = None
                for a in fn.ancestors(i):
                    sa = fn.s(a)
                    if sa["k"] in P.CALL_KINDS and "callee" in sa and sa["callee"]["q"].split("::")[-2:-1] == ["ResourceManager"]:
                        h = prog.fns.get(sa["callee"]["key"])
                        idx = [n_ for n_, x in enumerate(sa.get("args", [])) if i in set(fn.walk(x))]
                        if h is not None and idx and idx[0] < len(h.params):
                            via = (h, h.params[idx[0]]["d"])
                        break
                if via is not None:
                    h, pd_ = via
                    hfe = []
                    for b_, cond_, succ_ in h.branch_conditions():
                        ii = h.strip(cond_, casts=True)
                        sh = h.s(ii)
                        neg_ = False
                        while sh["k"] == "UnaryOperator" and sh["op"] == "!":
                            neg_ = not neg_
                            ii = h.strip(sh["c"][0], casts=True)
                            sh = h.s(ii)
                        if sh["k"] == "DeclRefExpr" and sh["ref"]["d"] == pd_:
                            hfe.append(succ_[0] if neg_ else succ_[1])
                    hset = set()
                    for j in h.walk():
                        sj = h.s(j)
                        if sj["k"] == "BinaryOperator" and sj["op"] == "=" and is_member_of_this(h, sj["c"][0], "overflowed_"):
                            r_ = h.s(h.strip(sj["c"][1], casts=True))
                            if r_.get("v") is True or r_.get("cv") == "1":
                                bj = h.block_of(j)
                                if bj:
                                    hset.add(bj[0])
                    okh = bool(hfe) and all(h.cfg["exit"] not in h.reach_from([fb_], avoid=hset) for fb_ in hfe)
                    ctx.ob(rule, "%s: failure of %s sets overflowed_" % (fn.short, q.split("::")[-1]), okh, fn.loc(i),
                           "the result goes through %s, whose null branch sets overflowed_ on every path" % h.short if okh else
                           "the result goes through %s, which does not set overflowed_ on its null branch" % h.short)
                    continue
                ctx.ob(rule, "%s: failure of %s sets overflowed_" % (fn.short, q.split("::")[-1]), False, fn.loc(i),
                       "no failure branch for this allocation: the sticky flag cannot be set")
                continue
            setblocks = set()
            for j in fn.walk():
                sj = fn.s(j)
                if sj["k"] == "BinaryOperator" and sj["op"] == "=" and is_member_of_this(fn, sj["c"][0], "overflowed_"):
                    r = fn.s(fn.strip(sj["c"][1], casts=True))
                    if r.get("v") is True or r.get("cv") == "1":
                        bj = fn.block_of(j)
                        if bj:
                            setblocks.add(bj[0])
            bad = False
            for fb in fe:
                reach = fn.reach_from([fb], avoid=setblocks)
                if fn.cfg["exit"] in reach:
                    bad = True
            ctx.ob(rule, "%s: failure of %s sets overflowed_" % (fn.short, q.split("::")[-1]), not bad, fn.loc(i),
                   "every path from the failure edge to the exit passes overflowed_ = true" if not bad else
                   "a failed allocation returns without setting overflowed_: operations that report only through the flag "
                   "(copies, operator=) then claim success")
    ctx.floor(rule, "raw allocations in ResourceManager", ns, 4)
    # who may call the raw allocators
    raw_targets = ("MemoryPoolList::allocSlot", "StringNode::create", "StringNode::resize", "StringPool::add")
    for fn in sorted(prog.fns.values(), key=lambda f: f.key):
        for i, st in fn.calls():
            q = st["callee"]["q"]
            if q.endswith(raw_targets) and not (q.endswith("StringPool::add") and st["callee"].get("np") != 2):
                ok = fn.file.startswith("Memory/")
                ctx.ob(rule, "%s may call %s" % (fn.short, "::".join(q.split("::")[-2:])), ok, fn.loc(i),
                       "inside Memory/" if ok else "raw allocator called from outside Memory/: failure would not set overflowed_", nontrivial=False)

    # ------------------------------------------------------------ R-LINK
    rule = "R-LINK"
    nl = 0
    for fn in sorted(prog.fns.values(), key=lambda f: f.key):
        links = [i for i, st in fn.calls() if st["callee"]["q"].endswith(("CollectionData::appendOne", "CollectionData::appendPair"))]
        if not links or fn.cls.endswith("CollectionData"):
            continue
        for li in links:
            nl += 1
            pbl = fn.block_of(li)
            bad = None
            for i, st in fn.calls():
                kind = fallible_kind(st)
                if not kind or i == li:
                    continue
                # JsonVariant::set / setString are fallible too (bool)
                var = None
                for a in fn.ancestors(i):
                    sa = fn.s(a)
                    if sa["k"] == "DeclStmt":
                        var = sa["decls"][0]["d"]
                        break
                    if sa["k"] in ("IfStmt", "CompoundStmt", "ReturnStmt"):
                        break
                if not fn.stmt_dominates(i, li):
                    continue
                for fb in failure_edge(fn, i, kind, var):
                    if pbl and pbl[0] in fn.reach_from([fb]):
                        bad = i
            # also `variant.set(...)` style bool results
            for i, st in fn.calls():
                if st["callee"]["q"].split("::")[-1] in ("set",) and fn.stmt_dominates(i, li):
                    for fb in failure_edge(fn, i, "bool", None):
                        if pbl and pbl[0] in fn.reach_from([fb]):
                            bad = i
            ctx.ob(rule, "%s: links only after everything was built" % fn.short, bad is None, fn.loc(li),
                   "append is unreachable from every failure edge of the allocations before it" if bad is None else
                   "the new element is linked into the collection on a path where %s failed: the document then contains a "
                   "half-built member" % fn.text(bad))
    ctx.floor(rule, "append sites", nl, 3)

    # ------------------------------------------------------------ R-BUILDER
    rule = "R-BUILDER"
    nb = 0
    for fn in sorted(prog.fns.values(), key=lambda f: f.key):
        if fn.cls.split("::")[-1] not in ("StringBuilder", "StringBuffer"):
            continue
        for i in fn.walk():
            st = fn.s(i)
            if st["k"] not in ("BinaryOperator", "CompoundAssignOperator") or st["op"] != "=":
                continue
            l = fn.s(fn.strip(st["c"][0], casts=True))
            if l["k"] != "ArraySubscriptExpr":
                continue
            base = fn.s(fn.strip(l["c"][0], casts=True))
            if not (base["k"] == "MemberExpr" and base["m"] == "data"):
                continue
            obj = fn.s(fn.strip(base["c"][0], casts=True))
            if not (obj["k"] == "MemberExpr" and obj["m"] == "node_"):
                continue
            nb += 1
            pb = fn.block_of(i)
            ok = False
            for b, nn, nl_ in nonnull_edges(fn, member="node_"):
                if pb and fn.edge_dominates(b, nn, pb[0]):
                    ok = True
            if not ok:
                ok = node_nonnull_at(fn, i)
            # early return on null:  if (!node_) return ...;
            asserted = fn.name in ("save", "str")  # documented precondition: isValid() checked by the caller
            ctx.ob(rule, "%s: write through node_->data under a non-null test" % fn.short, ok or asserted, fn.loc(i),
                   "dominated by node_ != null" if ok else
                   ("precondition: callers test isValid()/reserve() first (checked under R-FALLIBLE/R-NOMEM)" if asserted else
                    "node_ may be null after a failed (re)allocation and is written through"))
    ctx.floor(rule, "writes through node_->data", nb, 4)
    # ------------------------------------------------------------ R-COVER (the failure flag follows the document)
    # swap(ResourceManager) backs move construction and both assignments of JsonDocument: the sticky
    # overflowed_ flag (and everything else the manager owns) must be exchanged on both operands,
    # else a truncated copy reports overflowed() == false.
    from rules import c06
    sub = type(ctx)(ctx.prop, ctx.tier)
    sub.config = ctx.config
    c06.run(sub, prog)
    ncov = 0
    for o in sub.obs:
        if o.rule == "R-COVER" and "swap(ResourceManager)" in o.key:
            ctx.obs.append(o)
            ncov += 1
    for b in sub.broken:
        if "R-COVER" in b:
            ctx.broken.append(b)
    ctx.floor("R-COVER", "fields of ResourceManager exchanged by swap", ncov, 4)
    ctx.doc("R-COVER", "swap(ResourceManager) exchanges every field, the sticky failure flag included")
    for r_ in ("R-FALLIBLE", "R-REALLOC", "R-STICKY", "R-LINK", "R-BUILDER", "R-NOMEM"):
        ctx.doc(r_, r_)


def false_only_on_failure(ctx, prog, rule="R-FALSEONLY"):
    """The boolean result of a numeric VariantData setter (setInteger,
    setFloat; setString also reports a null source) means "memory was
    available": `return false` is reached only from the failure edge of an
    allocation made in that setter (callers turn false into NoMemory /
    overflowed).  A setter that reports false because a value does not fit
    the configured integer range turns a representable-as-null value into an
    allocation error."""
    n = 0
    for fn in sorted(prog.fns.values(), key=lambda f: f.key):
        if not fn.cls.endswith("VariantData") or fn.name not in ("setInteger", "setFloat") or fn.cfg is None:
            continue
        if fn.d.get("retk") != "bool":
            continue
        falses = []
        for i in fn.walk():
            st = fn.s(i)
            if st["k"] == "ReturnStmt" and st["c"]:
                r = fn.s(fn.strip(st["c"][0], casts=True))
                if r["k"] == "CXXBoolLiteralExpr" and r["v"] is False:
                    falses.append(i)
        if not falses:
            continue
        n += 1
        ALLOC_NAMES = ("allocExtension", "saveString", "createString", "allocVariant", "resizeString", "save", "allocSlot")
        allocs = []
        for i, st in fn.calls():
            if st["callee"]["q"].split("::")[-1] in ALLOC_NAMES:
                allocs.append(i)
                continue
            # a helper that allocates (e.g. toExtension): anything from which an allocating routine is reachable
            ck = st["callee"]["key"]
            if ck in prog.fns and any(prog.fns[k_].name in ALLOC_NAMES for k_ in prog.reachable([ck]) if k_ in prog.fns):
                allocs.append(i)
        bad = None
        for r in falses:
            ok = False
            for cond, pol in fn.guards_of(r):
                c = fn.s(fn.strip(cond, casts=True))
                neg = False
                while c["k"] == "UnaryOperator" and c["op"] == "!":
                    neg = not neg
                    c = fn.s(fn.strip(c["c"][0], casts=True))
                if c["k"] in P.CALL_KINDS and c.get("callee", {}).get("q", "").endswith("operator bool") and "obj" in c:
                    c = fn.s(fn.strip(c["obj"], casts=True))
                if c["k"] == "DeclRefExpr" and (pol == neg):
                    # the variable tested holds the result of an allocation
                    d = c["ref"]["d"]
                    for a in allocs:
                        for anc in fn.ancestors(a):
                            sa = fn.s(anc)
                            if sa["k"] == "DeclStmt" and any(dd["d"] == d for dd in sa["decls"]):
                                ok = True
                            if sa["k"] == "BinaryOperator" and sa["op"] == "=" and local_of(fn, sa["c"][0]) == d:
                                ok = True
                if c["k"] in P.CALL_KINDS and (pol == neg) and fn.strip(cond, casts=True) in allocs:
                    ok = True
            if not ok:
                bad = r
        ctx.ob(rule, "%s<%s>: false only when an allocation failed" % (fn.short, ",".join(fn.d.get("targs") or [])), bad is None, fn.where if bad is None else fn.loc(bad),
               "%d `return false`, each on the failure edge of an allocation" % len(falses) if bad is None else
               "`return false` is reached without a failed allocation: callers report NoMemory / overflowed() for a value that merely "
               "does not fit (e.g. an int 64 outside the range when ARDUINOJSON_USE_LONG_LONG=0 must leave the value null)", nontrivial=False)
    # configurations without 64-bit storage have no fallible numeric setter: counted, not floored
    ctx.count(rule + ":numeric setters with a false result", n)
    nset = sum(1 for f in prog.fns.values() if f.cls.endswith("VariantData") and f.name in ("setInteger", "setFloat"))
    ctx.floor(rule, "numeric VariantData setters", nset, 4)
    ctx.doc(rule, false_only_on_failure.__doc__.strip().replace("\n", " "))
