"""C06 — every block comes from and returns to the user's allocator exactly
once (ownership structure; 'exactly once over histories' is not decided).

R-WMC-ALLOC  who may call: malloc/free/realloc only in DefaultAllocator; the
             virtual Allocator methods only from the frozen owner set; no
             new/delete other than placement new.
R-PROV       every Allocator* argument is the callee-side parameter handed
             on, the ResourceManager's own allocator_, or (constructors only)
             DefaultAllocator::instance().
R-COVER      swap / destructor / clear of an owner touch every owning field
             (member coverage against the record's field list).
R-RESIZEFAIL StringNode::resize: every path that does not return a
             successfully reallocated node releases the old one.
R-HANDOVER   StringBuilder/StringBuffer::save: once the node was handed to the
             pool (saveString(node)), node_ is reset before return;
             destructors free node_ only under a non-null test.
R-REFCOUNT   references is written only by create (=1), the 'found an equal
             string' branches (++) and StringPool::dereference (--); every
             function that looks a string up in the pool and returns the found
             node increments it on that path.
R-RELEASE    VariantData::clear releases string / extension / children under
             exactly the tag bit that marks them, and the tag-bit encoding is
             as documented (every enumerator checked).
R-SAVEUSE    an owned string reference obtained from save()/saveString() is
             consumed on every path (passed on or returned), never dropped.
R-FREELIST   MemoryPoolList::allocSlot consults the free list, then the last
             pool, before it may reach addPool.
R-RO-ALLOC   read-only entry points reach no Allocator method.
"""
from lib import prog as P
from rules import purity, tags

OWNERS = {
    "allocate": {"MemoryPool::create", "MemoryPoolList::increaseCapacity", "StringNode::create"},
    "reallocate": {"MemoryPool::shrinkToFit", "MemoryPoolList::increaseCapacity",
                   "MemoryPoolList::shrinkToFit", "StringNode::resize"},
    "deallocate": {"MemoryPool::destroy", "MemoryPoolList::clear", "StringNode::resize",
                   "StringNode::destroy"},
}
LIBC = {"malloc", "free", "realloc", "calloc"}


def is_member_of_this(fn, i, name=None):
    st = fn.s(fn.strip(i, casts=True))
    if st["k"] == "MemberExpr" and fn.s(fn.strip(st["c"][0], casts=True))["k"] == "CXXThisExpr":
        return st["m"] if name is None else st["m"] == name
    return None if name is None else False


def local_of(fn, i):
    st = fn.s(fn.strip(i, casts=True))
    if st["k"] == "DeclRefExpr" and st["ref"]["k"] in ("local", "parm"):
        return st["ref"]["d"]
    return None


def nonnull_edges(fn, var_d=None, member=None):
    """[(block, succ_if_nonnull, succ_if_null)] for tests of a pointer/Slot."""
    out = []
    for b, cond, succ in fn.branch_conditions():
        i = fn.strip(cond, casts=True)
        st = fn.s(i)
        neg = False
        while st["k"] == "UnaryOperator" and st["op"] == "!":
            neg = not neg
            i = fn.strip(st["c"][0], casts=True)
            st = fn.s(i)
        # Slot<T>::operator bool
        if st["k"] == "CXXMemberCallExpr" and st.get("callee", {}).get("q", "").endswith("operator bool"):
            i = fn.strip(st["obj"], casts=True)
            st = fn.s(i)
        hit = False
        if var_d is not None and st["k"] == "DeclRefExpr" and st["ref"]["d"] == var_d:
            hit = True
        if member is not None and st["k"] == "MemberExpr" and st["m"] == member:
            hit = True
        if st["k"] == "BinaryOperator" and st["op"] in ("!=", "=="):
            a, c = st["c"]
            sa, sc = fn.s(fn.strip(a, casts=True)), fn.s(fn.strip(c, casts=True))
            for x, y in ((sa, sc), (sc, sa)):
                isnull = y["k"] == "CXXNullPtrLiteralExpr" or y.get("cv") == "0"
                if isnull and ((var_d is not None and x["k"] == "DeclRefExpr" and x["ref"]["d"] == var_d) or
                               (member is not None and x["k"] == "MemberExpr" and x["m"] == member)):
                    hit = True
                    if st["op"] == "==":
                        neg = not neg
        if hit:
            nn, nl = (succ[1], succ[0]) if neg else (succ[0], succ[1])
            out.append((b["id"], nn, nl))
    return out


def run(ctx, prog):
    from rules import oncefree
    oncefree.run(ctx, prog)
    cg, ext = prog.callgraph()
    # ------------------------------------------------------------ R-WMC-ALLOC
    rule = "R-WMC-ALLOC"
    n_sites = 0
    for fn in sorted(prog.fns.values(), key=lambda f: f.key):
        for i, st in fn.calls():
            q = st["callee"]["q"]
            last = q.split("::")[-1]
            if q in LIBC or (last in LIBC and q in ("std::" + last,)):
                n_sites += 1
                ok = fn.cls.endswith("DefaultAllocator")
                ctx.ob(rule, "%s calls %s" % (fn.short, last), ok, fn.loc(i),
                       "libc allocation confined to DefaultAllocator" if ok else
                       "%s is called outside DefaultAllocator: memory bypasses the allocator given to the document" % last)
            elif q.endswith(("Allocator::allocate", "Allocator::reallocate", "Allocator::deallocate")) and \
                    q.split("::")[-2] == "Allocator":
                n_sites += 1
                ok = fn.short in OWNERS[last]
                ctx.ob(rule, "%s calls Allocator::%s" % (fn.short, last), ok, fn.loc(i),
                       "member of the frozen owner set" if ok else
                       "Allocator::%s called from %s, which is not one of the owners %s" % (last, fn.short, sorted(OWNERS[last])))
        for i in fn.walk():
            st = fn.s(i)
            if st["k"] == "CXXNewExpr" and st.get("placement", 0) == 0:
                ctx.ob(rule, "%s: no operator new" % fn.short, False, fn.loc(i), "non-placement new expression")
            if st["k"] == "CXXDeleteExpr":
                ctx.ob(rule, "%s: no operator delete" % fn.short, False, fn.loc(i), "delete expression")
    ctx.floor(rule, "allocator call sites", n_sites, 13)
    for kind, owners in OWNERS.items():
        for o in owners:
            if not prog.q(o):
                ctx.brk(rule, "owner %s not found" % o)

    # ------------------------------------------------------------ R-PROV
    rule = "R-PROV"
    n_args = 0
    for fn in sorted(prog.fns.values(), key=lambda f: f.key):
        own = [p["d"] for p in fn.params if p["t"].replace("ArduinoJson::", "") in ("Allocator *", "detail::Allocator *")]
        for i, st in fn.calls():
            ck = st["callee"]["key"]
            callee = prog.fns.get(ck)
            if callee is None:
                continue
            for idx, p in enumerate(callee.params):
                if p["t"].replace("ArduinoJson::", "") != "Allocator *":
                    continue
                args = st.get("args", [])
                if idx >= len(args):
                    continue
                a = args[idx]
                sa = fn.s(fn.strip(a, casts=True))
                n_args += 1
                ok = None
                why = ""
                if sa["k"] == "DeclRefExpr" and sa["ref"]["d"] in own:
                    ok, why = True, "the caller's own Allocator* parameter"
                elif sa["k"] == "MemberExpr" and sa["m"] == "allocator_" and (sa.get("rec") or "").endswith("ResourceManager"):
                    ok, why = True, "ResourceManager::allocator_"
                elif sa["k"] in P.CALL_KINDS and sa.get("callee", {}).get("q", "").endswith(("ResourceManager::allocator", "JsonDocument::allocator")):
                    ok, why = True, "allocator() of a document"
                elif sa["k"] in P.CALL_KINDS and sa.get("callee", {}).get("q", "").endswith("DefaultAllocator::instance"):
                    ok = bool(fn.d.get("ctor")) and fn.cls.split("::")[-1] in ("JsonDocument", "ResourceManager")
                    why = "DefaultAllocator::instance() as constructor default" if ok else \
                        "DefaultAllocator::instance() used outside a constructor default: memory would come from / go to the wrong allocator"
                elif sa["k"] == "CXXDefaultArgExpr":
                    ok, why = True, "default argument"
                elif sa["k"] == "CXXNullPtrLiteralExpr":
                    ok, why = None, "null allocator"
                else:
                    # default-argument expressions are transparent in strip()
                    txt = fn.text(a)
                    if "instance" in txt and fn.d.get("ctor"):
                        ok, why = True, "DefaultAllocator::instance() as constructor default"
                    else:
                        ok, why = False, "allocator argument is neither the caller's allocator nor the document's: %s" % txt
                ctx.ob(rule, "%s -> %s: allocator argument" % (fn.short, callee.short), ok, fn.loc(i), why, nontrivial=False)
    ctx.floor(rule, "Allocator* arguments", n_args, 15)

    # ------------------------------------------------------------ R-COVER
    rule = "R-COVER"
    owners = {"ResourceManager": None, "MemoryPoolList": None, "StringPool": None, "JsonDocument": None}
    recs = {}
    for r in prog.records:
        nm = r["q"].split("::")[-1]
        if nm in owners and not r["dependent"] and nm not in recs:
            recs[nm] = r
    nsw = 0
    for fn in sorted(prog.fns.values(), key=lambda f: f.key):
        if fn.name != "swap" or len(fn.params) != 2:
            continue
        rec = (fn.params[0].get("tr") or "").split("::")[-1]
        if rec not in recs or (fn.params[1].get("tr") or "").split("::")[-1] != rec:
            continue
        nsw += 1
        fields = [f["n"] for f in recs[rec]["fields"]]
        touched = {fn.params[0]["d"]: set(), fn.params[1]["d"]: set()}
        for i in fn.walk():
            st = fn.s(i)
            if st["k"] == "MemberExpr" and st.get("field"):
                b = fn.s(fn.strip(st["c"][0], casts=True))
                if b["k"] == "DeclRefExpr" and b["ref"]["d"] in touched:
                    touched[b["ref"]["d"]].add(st["m"])
        for f in fields:
            ok = all(f in s for s in touched.values())
            ctx.ob(rule, "swap(%s): field %s" % (rec, f), ok, fn.where,
                   "swapped on both operands" if ok else
                   "field %s of %s is not exchanged by swap(): after a move/swap the two objects disagree about who owns what" % (f, rec))
    ctx.floor(rule, "owner swap functions", nsw, 4)
    for clsname, meth, need in (("ResourceManager", "~ResourceManager", ("stringPool_", "variantPools_")),
                                ("ResourceManager", "clear", ("stringPool_", "variantPools_"))):
        for fn in prog.q("%s::%s" % (clsname, meth)):
            seen = set()
            for i, st in fn.calls():
                if "obj" in st and st["callee"]["q"].split("::")[-1] == "clear":
                    m = is_member_of_this(fn, st["obj"])
                    if m:
                        seen.add(m)
            for f in need:
                ctx.ob(rule, "%s::%s releases %s" % (clsname, meth, f), f in seen, fn.where,
                       "" if f in seen else "%s is not cleared: its blocks are never returned to the allocator" % f)
    # every pool-typed field of ResourceManager is in `need`
    if "ResourceManager" in recs:
        pools = [f["n"] for f in recs["ResourceManager"]["fields"] if (f.get("tr") or "").split("::")[-1] in ("StringPool", "MemoryPoolList")]
        ctx.ob(rule, "ResourceManager owning fields are the two known pools", sorted(pools) == ["stringPool_", "variantPools_"],
               "Memory/ResourceManager.hpp", str(pools))

    # ------------------------------------------------------------ R-RESIZEFAIL
    rule = "R-RESIZEFAIL"
    for fn in prog.q("StringNode::resize"):
        dblocks = set()
        realloc_local = None
        for i, st in fn.calls():
            if st["callee"]["q"].endswith("Allocator::deallocate"):
                pb = fn.block_of(i)
                if pb:
                    dblocks.add(pb[0])
            if st["callee"]["q"].endswith("Allocator::reallocate"):
                # local receiving the result
                for a in fn.ancestors(i):
                    sa = fn.s(a)
                    if sa["k"] == "BinaryOperator" and sa["op"] == "=":
                        realloc_local = local_of(fn, sa["c"][0])
                        break
                    if sa["k"] == "DeclStmt":
                        realloc_local = sa["decls"][0]["d"]
                        break
        if realloc_local is None:
            ctx.ob(rule, "StringNode::resize releases the old node on failure", None, fn.where, "reallocate result not stored in a local")
            continue
        blocked_edges = set()
        for b, nn, nl in nonnull_edges(fn, var_d=realloc_local):
            blocked_edges.add((b, nn))
        # reachability entry -> exit avoiding dealloc blocks and non-null edges
        seen = set()
        stack = [fn.cfg["entry"]]
        blocks = fn.blocks()
        while stack:
            b = stack.pop()
            if b in seen or b in dblocks:
                continue
            seen.add(b)
            for s in blocks[b]["succ"]:
                if s >= 0 and (b, s) not in blocked_edges:
                    stack.append(s)
        leak = fn.cfg["exit"] in seen
        ctx.ob(rule, "StringNode::resize releases the old node on failure", not leak, fn.where,
               "every path to the exit passes deallocate(node) or the 'reallocation succeeded' edge" if not leak else
               "a path returns without a successful reallocation and without deallocate(node): callers overwrite their pointer "
               "with the null result, so the old block is never released")
    ctx.floor(rule, "StringNode::resize", len(prog.q("StringNode::resize")), 1)

    # ------------------------------------------------------------ R-HANDOVER
    rule = "R-HANDOVER"
    nh = 0
    for fn in prog.q("StringBuilder::save", "StringBuffer::save"):
        nh += 1
        # calls saveString(StringNode*) = hand-over
        for i, st in fn.calls():
            if st["callee"]["q"].endswith("ResourceManager::saveString") and st["callee"]["key"].count("StringNode *"):
                pb = fn.block_of(i)
                # node_ = nullptr must be on every path from here to exit
                resets = set()
                for j in fn.walk():
                    sj = fn.s(j)
                    if sj["k"] == "BinaryOperator" and sj["op"] == "=" and is_member_of_this(fn, sj["c"][0], "node_"):
                        r = fn.s(fn.strip(sj["c"][1], casts=True))
                        if r["k"] == "CXXNullPtrLiteralExpr" or r.get("cv") == "0":
                            bj = fn.block_of(j)
                            if bj:
                                resets.add((bj[0], bj[1]))
                same_block_before = any(b == pb[0] for b, k in resets)
                reach = fn.reach_from([s for s in fn.blocks()[pb[0]]["succ"] if s >= 0], avoid={b for b, k in resets})
                ok = same_block_before or fn.cfg["exit"] not in reach
                ctx.ob(rule, "%s: node_ reset after hand-over" % fn.short, ok, fn.loc(i),
                       "node_ = nullptr on every path after saveString(node)" if ok else
                       "the node handed to the pool stays in node_: the destructor destroys a block the pool owns (double release)")
    for fn in prog.q("StringBuilder::~StringBuilder", "StringBuffer::~StringBuffer"):
        nh += 1
        for i, st in fn.calls():
            if st["callee"]["q"].endswith("destroyString"):
                ok = any(pol for cond, pol in fn.guards_of(i)
                         if is_member_of_this(fn, cond, "node_")) or \
                    any(True for b, nn, nl in nonnull_edges(fn, member="node_") if fn.block_of(i) and fn.edge_dominates(b, nn, fn.block_of(i)[0]))
                ctx.ob(rule, "%s frees node_ only if non-null" % fn.short, ok, fn.loc(i), "")
    ctx.floor(rule, "save()/destructor functions", nh, 4)

    # ------------------------------------------------------------ R-REFCOUNT
    rule = "R-REFCOUNT"
    writers = {}
    for fn in sorted(prog.fns.values(), key=lambda f: f.key):
        for i in fn.walk():
            st = fn.s(i)
            tgt = None
            kind = None
            if st["k"] == "UnaryOperator" and st["op"] in ("++", "--"):
                tgt, kind = st["c"][0], st["op"]
            elif st["k"] in ("BinaryOperator", "CompoundAssignOperator") and st["op"] in ("=", "+=", "-="):
                tgt, kind = st["c"][0], st["op"]
            if tgt is None:
                continue
            t = fn.s(fn.strip(tgt, casts=True))
            if t["k"] == "MemberExpr" and t["m"] == "references" and (t.get("rec") or "").endswith("StringNode"):
                writers.setdefault(fn.short, []).append((fn, i, kind))
    allowed = {"StringNode::create": {"="}, "StringPool::add": {"++"}, "StringBuilder::save": {"++"},
               "StringBuffer::save": {"++"}, "StringPool::dereference": {"--"}}
    for name, lst in sorted(writers.items()):
        for fn, i, kind in lst:
            ok = name in allowed and kind in allowed[name]
            ctx.ob(rule, "%s: %s references" % (name, kind), ok, fn.loc(i),
                   "frozen writer of the reference count" if ok else "reference count modified outside the frozen writer set")
    ctx.floor(rule, "writers of StringNode::references", len(writers), 5)
    # found-branch increments
    for fn in prog.q("StringPool::add", "StringBuilder::save", "StringBuffer::save"):
        looked = None
        for i, st in fn.calls():
            if st["callee"]["q"].endswith(("StringPool::get", "ResourceManager::getString")):
                for a in fn.ancestors(i):
                    sa = fn.s(a)
                    if sa["k"] == "DeclStmt":
                        looked = sa["decls"][0]["d"]
                        break
                    if sa["k"] == "BinaryOperator" and sa["op"] == "=":
                        looked = local_of(fn, sa["c"][0])
                        break
        if looked is None:
            continue
        inc_ok = False
        for fn2, i, kind in writers.get(fn.short, []):
            if fn2.key != fn.key or kind != "++":
                continue
            t = fn.s(fn.strip(fn.s(i)["c"][0], casts=True))
            if local_of(fn, t["c"][0]) != looked:
                continue
            for b, nn, nl in nonnull_edges(fn, var_d=looked):
                pb = fn.block_of(i)
                if pb and fn.edge_dominates(b, nn, pb[0]):
                    inc_ok = True
        ctx.ob(rule, "%s: found string gains a reference" % fn.short, inc_ok, fn.where,
               "references++ on the 'found in pool' edge" if inc_ok else
               "the node found in the pool is returned to a new user without references++: the first user to go away frees a string still in use")

    # ------------------------------------------------------------ R-RELEASE
    rule = "R-RELEASE"
    T = tags.tag_table(prog)
    B = tags.bits_table(prog)
    if T and B:
        exp = {
            "OwnedStringBit": {"RawString", "OwnedString"},
            "NumberBit": {"Uint32", "Int32", "Float", "Uint64", "Int64", "Double"},
            "ExtensionBit": {"Uint64", "Int64", "Double"},
            "CollectionMask": {"Object", "Array"},
        }
        for bit, want in sorted(exp.items()):
            if bit not in B:
                continue
            have = {n for n, v in T.items() if v & B[bit]}
            want2 = want & set(T)
            ctx.ob(rule, "tag bit %s marks exactly its tags" % bit, have == want2, "Variant/VariantContent.hpp",
                   "%s=0x%02x marks %s" % (bit, B[bit], sorted(have)) if have == want2 else
                   "%s=0x%02x is set in %s but should mark %s: clear() would release the wrong resource" % (bit, B[bit], sorted(have), sorted(want2)))
        ctx.ob(rule, "tags are distinct", len(set(T.values())) == len(T), "Variant/VariantContent.hpp", str(T))
    for fn in prog.q("VariantData::clear"):
        if fn.d.get("static"):
            continue
        want_calls = {"dereferenceString": "OwnedStringBit", "freeExtension": "ExtensionBit"}
        found = set()
        for i, st in fn.calls():
            last = st["callee"]["q"].split("::")[-1]
            if last in want_calls:
                found.add(last)
                okg = False
                for cond, pol in fn.guards_of(i):
                    if not pol:
                        continue
                    # fold over all tags: must be exactly "tag has the bit"
                    vals = {n: tags.truth(fn, cond, v, prog) for n, v in T.items()}
                    bit = B.get(want_calls[last])
                    if bit is not None and all(vals[n] == bool(T[n] & bit) for n in T):
                        okg = True
                ctx.ob(rule, "clear(): %s under %s" % (last, want_calls[last]), okg, fn.loc(i),
                       "" if okg else "release is not guarded by exactly the tag bit that marks the resource")
            if last == "clear" and st["callee"]["q"].endswith("CollectionData::clear"):
                found.add("children")
        for w in list(want_calls) + ["children"]:
            if w == "freeExtension" and "ExtensionBit" not in B:
                continue
            ctx.ob(rule, "clear() releases %s" % w, w in found, fn.where,
                   "" if w in found else "VariantData::clear no longer releases %s: slots/strings leak until the document is destroyed" % w)

    # ------------------------------------------------------------ R-SAVEUSE
    rule = "R-SAVEUSE"
    producers = ("StringBuilder::save", "StringBuffer::save")
    ns = 0
    for fn in sorted(prog.fns.values(), key=lambda f: f.key):
        for i, st in fn.calls():
            q = st["callee"]["q"]
            prod = q.endswith(producers) or (q.endswith("ResourceManager::saveString") and "StringNode *" not in st["callee"]["key"].split("(")[-1]) \
                or (q.endswith("StringPool::add") and st["callee"]["np"] == 2)
            if not prod:
                continue
            ns += 1
            # direct consumption: argument of another call / returned
            par = fn.parent(i)
            cur = i
            direct = False
            var = None
            for a in fn.ancestors(i):
                sa = fn.s(a)
                if sa["k"] in P.TRANSPARENT:
                    cur = a
                    continue
                if sa["k"] in P.CALL_KINDS and cur in sa.get("args", []):
                    direct = True
                elif sa["k"] == "ReturnStmt":
                    direct = True
                elif sa["k"] == "DeclStmt":
                    var = sa["decls"][0]["d"]
                elif sa["k"] == "BinaryOperator" and sa["op"] == "=" and sa["c"][1] == cur:
                    var = local_of(fn, sa["c"][0])
                break
            inst = "%s: result of %s is consumed" % (fn.short, q.split("::")[-2] + "::" + q.split("::")[-1])
            if direct:
                ctx.ob(rule, inst, True, fn.loc(i), "passed on / returned directly")
                continue
            if var is None:
                ctx.ob(rule, inst, False, fn.loc(i), "the owned reference returned by %s is discarded" % q.split("::")[-1])
                continue
            cons_blocks = set()
            for j in fn.walk():
                sj = fn.s(j)
                if sj["k"] == "DeclRefExpr" and sj["ref"]["d"] == var:
                    # used as call argument or returned
                    c2 = j
                    for a in fn.ancestors(j):
                        sa = fn.s(a)
                        if sa["k"] in P.TRANSPARENT:
                            c2 = a
                            continue
                        if (sa["k"] in P.CALL_KINDS and c2 in sa.get("args", [])) or sa["k"] == "ReturnStmt":
                            pb = fn.block_of(a)
                            if pb:
                                cons_blocks.add(pb[0])
                        break
            blocked = set()
            for b, nn, nl in nonnull_edges(fn, var_d=var):
                blocked.add((b, nl))
            pb = fn.block_of(i)
            seen = set()
            stack = [s for s in fn.blocks()[pb[0]]["succ"] if s >= 0 and (pb[0], s) not in blocked] \
                if pb[0] not in cons_blocks else []
            blocks = fn.blocks()
            while stack:
                b = stack.pop()
                if b in seen or b in cons_blocks:
                    continue
                seen.add(b)
                for s in blocks[b]["succ"]:
                    if s >= 0 and (b, s) not in blocked:
                        stack.append(s)
            leak = fn.cfg["exit"] in seen
            ctx.ob(rule, inst, not leak, fn.loc(i),
                   "consumed (passed on or returned) on every path where it is non-null" if not leak else
                   "a path reaches the end of %s without handing the saved string to anyone: its reference is never released "
                   "(the string stays allocated until clear())" % fn.short)
    ctx.floor(rule, "owned-string producers", ns, 5)

    # ------------------------------------------------------------ R-FREELIST
    rule = "R-FREELIST"
    for fn in prog.q("MemoryPoolList::allocSlot"):
        for i, st in fn.calls():
            if not st["callee"]["q"].endswith("MemoryPoolList::addPool"):
                continue
            g_free = False
            for cond, pol in fn.guards_of(i):
                c = fn.s(fn.strip(cond, casts=True))
                if c["k"] == "BinaryOperator" and c["op"] in ("!=", "=="):
                    ms = [is_member_of_this(fn, x) for x in c["c"]]
                    if "freeList_" in ms:
                        if (c["op"] == "!=" and pol is False) or (c["op"] == "==" and pol is True):
                            g_free = True
            # allocFromLastPool attempted before on the count_ != 0 path
            last_calls = [j for j, sj in fn.calls() if sj["callee"]["q"].endswith("allocFromLastPool")]
            g_last = any(fn.block_of(j) and fn.block_of(i) and j < 10 ** 9 and
                         fn.block_of(j)[0] != fn.block_of(i)[0] and
                         fn.block_of(i)[0] in fn.reach_from([fn.block_of(j)[0]]) for j in last_calls)
            ctx.ob(rule, "addPool only after the free list is empty", g_free, fn.loc(i),
                   "dominated by freeList_ == NULL_SLOT" if g_free else
                   "a new pool can be requested while released slots are still on the free list")
            ctx.ob(rule, "addPool only after the last pool was tried", g_last, fn.loc(i), "")
    ctx.floor(rule, "MemoryPoolList::allocSlot", len(prog.q("MemoryPoolList::allocSlot")), 1)

    # ------------------------------------------------------------ R-RO-ALLOC
    purity.check_readonly(ctx, prog, "R-RO-ALLOC", want_alloc=True, want_writes=False)
    for r_ in ("R-WMC-ALLOC", "R-PROV", "R-COVER", "R-RESIZEFAIL", "R-HANDOVER", "R-REFCOUNT", "R-RELEASE", "R-SAVEUSE", "R-FREELIST", "R-RO-ALLOC"):
        ctx.doc(r_, [l for l in __doc__.split("\n") if l.startswith(r_)][0] if any(l.startswith(r_) for l in __doc__.split("\n")) else r_)
