"""C08 — serializeMsgPack emits one conforming object (header clauses).

R-LADDER  every path of every MsgPackSerializer::visit overload (paths
          enumerated by the interval interpreter lib/absint.py, helpers of the
          class inlined with their constant arguments) emits a header that the
          MessagePack specification allows for the interval of the subject on
          that path: the format byte belongs to the family of the visited
          kind, the cast type after it has the width/signedness the format
          byte announces, the subject interval fits that type (lossless), and
          fix-range bases stay inside their range.  Minimality is not
          demanded.
R-ENDIAN  writeInteger<T> swaps bytes (fixEndianness) before writeBytes with
          sizeof(value); fixEndianness<N> swaps exactly the pairs (i, N-1-i).
R-COUNT   CountingDecorator adds what the writer reports, measure and
          serialize use the same serializer template.
R-BINEXT  bin/ext headers built by the converters: format byte, number of size
          bytes and size interval agree with the specification.
"""
from lib import absint
from lib import prog as P

U8, U16, U32, U64 = (0, 0xFF), (0, 0xFFFF), (0, 0xFFFFFFFF), (0, (1 << 64) - 1)

# format byte -> (family, cast type kind, subject interval allowed)
SPEC = {
    0xCC: ("uint", "u8", U8), 0xCD: ("uint", "u16", U16), 0xCE: ("uint", "u32", U32), 0xCF: ("uint", "u64", U64),
    0xD0: ("int", "s8", (-128, 127)), 0xD1: ("int", "s16", (-32768, 32767)),
    0xD2: ("int", "s32", (-(1 << 31), (1 << 31) - 1)), 0xD3: ("int", "s64", (-(1 << 63), (1 << 63) - 1)),
    0xD9: ("str", "u8", U8), 0xDA: ("str", "u16", U16), 0xDB: ("str", "u32", U32),
    0xDC: ("array", "u16", U16), 0xDD: ("array", "u32", U32),
    0xDE: ("map", "u16", U16), 0xDF: ("map", "u32", U32),
}
FIX = {  # base -> (family, max n)
    0xA0: ("str", 31), 0x90: ("array", 15), 0x80: ("map", 15),
}


def within(a, b):
    return b[0] <= a[0] and a[1] <= b[1]


def kind_of(fn):
    t = fn.params[0]["t"] if fn.params else ""
    if "ArrayData" in t:
        return "array"
    if "ObjectData" in t:
        return "map"
    if "JsonString" in t:
        return "str"
    if t == "bool":
        return "bool"
    if "nullptr" in t:
        return "nil"
    if "SerializedValue" in t or "RawString" in t:
        return "raw"
    if t in ("float",):
        return "f32"
    if t in ("double",):
        return "f64"
    if t == "const char *":
        return "cstr"
    tk = fn.params[0]["tk"] if fn.params else ""
    if tk.startswith("u"):
        return "uint"
    if tk.startswith("s"):
        return "int"
    return None


def run(ctx, prog):
    from rules import shift
    shift.run(ctx, prog)
    shift.run_signext(ctx, prog)
    rule = "R-LADDER"
    it = absint.Interp(prog,
                       emit=("MsgPackSerializer::writeByte", "MsgPackSerializer::writeInteger",
                             "MsgPackSerializer::writeBytes", "MsgPackSerializer::visit"),
                       inline=("MsgPackSerializer::",), pure_syms=("size",))
    # do not inline the emitters themselves
    it.inline = tuple()
    helpers = set()
    for fn in prog.fns.values():
        if fn.cls.endswith("MsgPackSerializer") and fn.name not in ("visit", "writeByte", "writeInteger", "writeBytes", "bytesWritten") \
                and not fn.d.get("ctor"):
            helpers.add("MsgPackSerializer::" + fn.name)
    it.inline = tuple(sorted(helpers))
    seen_kinds = set()
    n_paths = 0
    # storage domains: what VariantData::accept can hand to the integer
    # visitors (the parameter types JsonUInt/JsonInteger may be wider than
    # any stored integer, e.g. USE_LONG_LONG=0 on an LP64 host)
    dom = {"uint": None, "int": None}
    for acc in prog.q("VariantData::accept"):
        if "MsgPackSerializer" not in acc.key:
            continue
        for i, st in acc.calls():
            if st["callee"]["q"].split("::")[-1] != "visit" or not st.get("args"):
                continue
            a = st["args"][0]
            tk = acc.s(a).get("tk", "")
            src = acc.s(acc.strip(a, casts=True))
            if src["k"] == "MemberExpr" and tk[:1] in ("u", "s") and tk[1:].isdigit():
                r = absint.type_range(src.get("tk"))
                key = "uint" if tk[0] == "u" else "int"
                if r:
                    dom[key] = r if dom[key] is None else (min(dom[key][0], r[0]), max(dom[key][1], r[1]))
    if dom["int"] and dom["uint"]:
        dom["uint"] = (0, max(dom["uint"][1], dom["int"][1]))
    ctx.note("storage domains handed to the integer visitors: %s" % dom)
    for fn in sorted(prog.q("MsgPackSerializer::visit"), key=lambda f: f.key):
        kind = kind_of(fn)
        if kind is None:
            ctx.ob(rule, "visit(%s): kind" % fn.params[0]["t"], None, fn.where, "unknown visited kind")
            continue
        seen_kinds.add(kind)
        env, pc = {}, {}
        for prm in fn.params:
            r = absint.type_range(prm["tk"])
            if r:
                env[prm["d"]] = ("s", prm["n"], 0)
                if kind in dom and dom[kind]:
                    r = (max(r[0], dom[kind][0]), min(r[1], dom[kind][1]))
                pc[prm["n"]] = r
        it.n_paths = 0
        it.sym_cap = (0, 0xFFFFFFFF)   # MessagePack lengths/counts are at most 32 bits
        paths = it.run(fn, env, pc)
        label = "visit(%s)" % fn.params[0]["t"].replace("ArduinoJson::detail::", "").replace("ArduinoJson::", "").replace("const ", "").replace(" &", "")
        for path in paths:
            if path.end == "abort":
                continue
            n_paths += 1
            calls = [e for e in path.events if e[0] == "call"]
            names = [c[1].split("::")[-1] for c in calls]
            # the first emitting call may sit in an inlined helper: its statement id is then not one of fn's
            where = fn.where
            if calls and calls[0][3] < len(fn.stmts) and fn.s(calls[0][3])["k"] in P.CALL_KINDS and \
                    fn.s(calls[0][3]).get("callee", {}).get("q") == calls[0][1]:
                where = fn.loc(calls[0][3])
            ok, why = check_path(fn, kind, calls, names, path)
            rng = ""
            for s, r in path.pc.items():
                if s in ("value", "n") or s.endswith(".size()"):
                    rng = "%s in [%d, %d]" % (s, max(r[0], -(1 << 64)), min(r[1], 1 << 64))
            first = None
            if calls and calls[0][2]:
                first = calls[0][2][0][0]
            fb = ("0x%02X" % first[1]) if first and absint.is_c(first) else \
                 ("0x%02X+n" % first[2] if first and absint.is_s(first) else "-")
            inst = "%s: %s emits %s" % (label, rng or "all values", fb)
            ctx.ob(rule, inst, ok, where, why)
    ctx.floor(rule, "serializer paths", n_paths, 30)
    no_double = any(f.endswith("USE_DOUBLE=0") for f in prog.flags)
    for k in ("array", "map", "str", "uint", "int", "bool", "nil", "f32", "f64", "raw"):
        if k == "f64" and no_double:
            continue
        if k not in seen_kinds:
            ctx.brk(rule, "no visit overload for kind %s found" % k)

    # ---------------------------------------------------------------- R-ENDIAN
    rule = "R-ENDIAN"
    nw = 0
    for fn in prog.q("MsgPackSerializer::writeInteger"):
        nw += 1
        order = []
        for i, st in fn.calls():
            order.append((st["callee"]["q"].split("::")[-1], i))
        names = [n for n, _ in order]
        ok = "fixEndianness" in names and "writeBytes" in names and names.index("fixEndianness") < names.index("writeBytes")
        # size argument = sizeof(value)
        if ok:
            wb = fn.s(order[names.index("writeBytes")][1])
            sz = fn.const(wb["args"][1])
            want = None
            r = absint.type_range(fn.params[0]["tk"])
            want = {"f32": 4, "f64": 8}.get(fn.params[0]["tk"])
            if r:
                want = (r[1] - r[0] + 1).bit_length() // 8
            ok = sz == want
        ctx.ob(rule, "writeInteger<%s>: big-endian, sizeof(T) bytes" % fn.params[0]["t"], ok, fn.where,
               "fixEndianness before writeBytes(…, %s)" % ("sizeof(value)") if ok else "byte order fix or byte count missing/wrong")
    ctx.floor(rule, "writeInteger instantiations", nw, 8)
    ns = 0
    for fn in prog.q("detail::fixEndianness"):
        if len(fn.params) != 2 or "integral_constant" not in fn.params[1]["t"]:
            continue
        ns += 1
        import re
        m = re.search(r"integral_constant<[^,]+, (\d+)>", fn.params[1]["t"])
        N = int(m.group(1)) if m else None
        # evaluated, not pattern-matched: the N bytes p designates are symbols b0..b(N-1);
        # afterwards cell k must hold b(N-1-k) (lib/pieces.py), whatever the shape of the swaps
        from lib import pieces
        box = {"b%d" % k_: (0, 255) for k_ in range(N or 0)}
        ok = None
        why = ""
        try:
            m_ = pieces.Machine(prog, box, max_unroll=16)
            m_.fields = {}
            m_.garrays["bytes"] = [pieces.Aff.sym("b%d" % k_) for k_ in range(N)]
            fr_ = pieces.Machine.Frame(fn)
            fr_.env[fn.params[0]["d"]] = pieces.Ptr("bytes", 0)
            fr_.env[fn.params[1]["d"]] = None
            m_.run_fn(fr_)
            got = m_.garrays["bytes"]
            ok = all(got[k_] == pieces.Aff.sym("b%d" % (N - 1 - k_)) for k_ in range(N))
            why = "cell k holds byte N-1-k for every k" if ok else "after the call the bytes are %s, a reversal is %s" % (
                [repr(x) for x in got], ["b%d" % (N - 1 - k_) for k_ in range(N)])
        except (pieces.Unsupported, pieces.Hazard, pieces.Split) as ex:
            why = "not evaluable: %s" % ex
        ctx.ob(rule, "fixEndianness<%s> reverses the bytes" % N, ok, fn.where, why)
    big_endian = any(f.endswith("LITTLE_ENDIAN=0") for f in prog.flags)
    if not big_endian:
        ctx.floor(rule, "fixEndianness overloads", ns, 3)
    else:
        ctx.ob(rule, "big-endian target: no byte swapping", ns == 0, "MsgPack/endianness.hpp", "%d swap overload(s)" % ns, nontrivial=False)

    # ---------------------------------------------------------------- R-COUNT
    rule = "R-COUNT"
    nc = 0
    for fn in prog.q("CountingDecorator::write"):
        nc += 1
        ok = False
        for i in fn.walk():
            st = fn.s(i)
            if st["k"] == "CompoundAssignOperator" and st["op"] == "+=":
                l = fn.s(fn.strip(st["c"][0], casts=True))
                r = fn.s(fn.strip(st["c"][1], casts=True))
                if l["k"] == "MemberExpr" and l["m"] == "count_" and r["k"] in P.CALL_KINDS and \
                        r.get("callee", {}).get("q", "").split("::")[-1] == "write":
                    ok = True
        ctx.ob(rule, "CountingDecorator::write(%s) counts what the writer reports" % ("byte" if len(fn.params) == 1 else "block"), ok, fn.where,
               "count_ += writer_.write(...)" if ok else
               "the count is not the writer's return value: with a full buffer or a writer that rejects bytes the returned "
               "size exceeds the bytes produced")
    ctx.floor(rule, "CountingDecorator::write instantiations", nc, 4)
    # measure/serialize instantiate the same serializer
    pairs = {"measureMsgPack": "serializeMsgPack", "measureJson": "serializeJson", "measureJsonPretty": "serializeJsonPretty"}
    for m, s_ in pairs.items():
        def ser_of(name):
            out = set()
            for fn in prog.q(name):
                for i, st in fn.calls():
                    q = st["callee"]["q"]
                    if q.endswith(("detail::measure", "detail::serialize")):
                        ta = st["callee"]["key"].split("<", 1)[1].split(">", 1)[0] if "<" in st["callee"]["key"] else ""
                        out.add(ta.split(",")[0].strip())
            return out
        a, b = ser_of(m), ser_of(s_)
        if a and b:
            ctx.ob(rule, "%s and %s use the same serializer" % (m, s_), a == b or a <= b, "", "%s / %s" % (sorted(a), sorted(b)))

    # ---------------------------------------------------------------- R-BINEXT
    rule = "R-BINEXT"
    r_binext(ctx, prog, rule)
    for r_ in ("R-LADDER", "R-ENDIAN", "R-COUNT", "R-BINEXT"):
        ctx.doc(r_, [l.strip() for l in __doc__.split("\n") if l.startswith(r_)][0])


def check_path(fn, kind, calls, names, path):
    def arg(c, k=0):
        return c[2][k] if len(c[2]) > k else (absint.UNK, None, None)

    def subject_range(av):
        if absint.is_c(av):
            return (av[1], av[1])
        if absint.is_s(av):
            lo, hi = path.rng(av[1])
            return (lo + av[2], hi + av[2])
        return None
    if kind in ("nil",):
        ok = names == ["writeByte"] and arg(calls[0])[0] == absint.C(0xC0)
        return ok, "nil = 0xC0" if ok else "nil must be the single byte 0xC0"
    if kind == "bool":
        if names != ["writeByte"]:
            return False, "bool must be a single byte"
        v = arg(calls[0])[0]
        pv = path.rng("value", (0, 1))
        want = 0xC3 if pv == (1, 1) else 0xC2 if pv == (0, 0) else None
        if absint.is_c(v) and want is not None:
            return v[1] == want, "bool %s -> 0x%02X" % (pv[0], v[1])
        return None, "cannot fold the boolean byte"
    if kind == "raw":
        ok = names == ["writeBytes"]
        return ok, "raw value written verbatim with its size" if ok else "raw value must be one writeBytes(data,size)"
    if kind == "cstr":
        return ("visit" in names and len(names) == 1), "delegates to visit(JsonString)"
    if kind in ("f32", "f64"):
        if names == ["visit"]:
            return True, "delegates to a narrower exact representation"
        code = 0xCA if kind == "f32" else 0xCB
        ok = names == ["writeByte", "writeInteger"] and arg(calls[0])[0] == absint.C(code) and arg(calls[1])[1] == kind
        return ok, ("0x%02X followed by %d bytes" % (code, 4 if kind == "f32" else 8)) if ok else \
            "float%s must be 0x%02X followed by its %d big-endian bytes" % (kind[1:], code, 4 if kind == "f32" else 8)
    # integer / length families
    if not calls:
        return False, "this path emits nothing"
    if kind == "int" and names == ["visit"]:
        r = subject_range(arg(calls[0])[0])
        ok = r is not None and r[0] >= 0
        return ok, "non-negative values delegate to the unsigned ladder" if ok else "a possibly negative value is handed to the unsigned ladder"
    body = list(zip(names, calls))
    # strings end with the payload
    if kind == "str":
        if not body or body[-1][0] != "writeBytes":
            return False, "string payload missing"
        pay = body[-1][1]
        n_arg = arg(pay, 1)[0]
        if not (absint.is_s(n_arg) and n_arg[2] == 0):
            return False, "string payload is not written with the string's own size"
        body = body[:-1]
    if len(body) == 1 and body[0][0] == "writeByte":
        v = arg(body[0][1])[0]
        if absint.is_s(v):
            base = v[2]
            lo, hi = path.rng(v[1])
            if base in FIX:
                fam, mx = FIX[base]
                if fam != kind:
                    return False, "fix header 0x%02X+n belongs to %s, not %s" % (base, fam, kind)
                ok = lo >= 0 and hi <= mx
                return ok, "fix%s with n in [%d,%d]" % (fam, lo, hi) if ok else \
                    "fix%s header 0x%02X+n with n up to %d leaves the fix range (max %d): the byte becomes another format" % (fam, base, hi, mx)
            return False, "unknown fix base 0x%02X" % base
        return None, "single byte header not understood"
    if len(body) == 1 and body[0][0] == "writeInteger":
        v, ct, _ = arg(body[0][1])
        r = subject_range(v)
        if kind == "uint" and ct == "u8":
            ok = r is not None and within(r, (0, 0x7F))
            return ok, "positive fixint" if ok else "bare byte for values up to %s is not a positive fixint (max 127)" % (r[1] if r else "?")
        if kind == "int" and ct == "s8":
            ok = r is not None and within(r, (-32, 127))
            return ok, "fixint" if ok else "bare byte for values down to %s is not a fixint (min -32)" % (r[0] if r else "?")
        return False, "bare integer of type %s is not a MessagePack object" % ct
    if len(body) == 2 and body[0][0] == "writeByte" and body[1][0] == "writeInteger":
        code = arg(body[0][1])[0]
        v, ct, _ = arg(body[1][1])
        if not absint.is_c(code):
            return None, "format byte is not a constant on this path"
        if code[1] not in SPEC:
            return False, "0x%02X is not an integer/length format byte" % code[1]
        fam, want_t, allowed = SPEC[code[1]]
        if fam != kind:
            return False, "format byte 0x%02X announces %s but the value is %s" % (code[1], fam, kind)
        if ct != want_t:
            return False, "format byte 0x%02X must be followed by %s, found %s" % (code[1], want_t, ct)
        r = subject_range(v)
        if r is None:
            return None, "cannot bound the value on this path"
        if not within(r, allowed):
            return False, "values in [%d, %d] do not fit the %s that follows 0x%02X: truncated" % (r[0], r[1], want_t, code[1])
        return True, "0x%02X + %s for [%d, %d]" % (code[1], want_t, max(r[0], -(1 << 64)), min(r[1], 1 << 64))
    return None, "emission sequence %s not understood" % names


def r_binext(ctx, prog, rule):
    # Converter<MsgPackBinary>::toJson : headerSize in {2,3,5} <-> size interval; byte 0 per case
    it = absint.Interp(prog, emit=("ResourceManager::createString",), pure_syms=("size",))
    for fn in prog.fns.values():
        if fn.name != "toJson" or not fn.params:
            continue
        t0 = fn.params[0]["t"]
        if t0.endswith("MsgPackBinary"):
            paths = it.run(fn)
            n = 0
            for path in paths:
                stores = [e for e in path.events if e[0] == "store" and e[1] == "ptr"]
                if not stores:
                    continue
                n += 1
                first = [e for e in stores if absint.is_c(e[2]) and e[2][1] == 0]
                szr = None
                for s, r in path.pc.items():
                    if s.endswith(".size()"):
                        szr = r
                code = first[0][3] if first else absint.UNK
                nbytes = len(stores) - 1
                spec = {0xC4: (1, U8), 0xC5: (2, U16), 0xC6: (4, U32)}
                ok = None
                why = "header not folded"
                if absint.is_c(code) and szr is not None:
                    if code[1] not in spec:
                        ok, why = False, "0x%02X is not a bin format byte" % code[1]
                    else:
                        nb, allowed = spec[code[1]]
                        lo, hi = max(szr[0], 0), szr[1]
                        ok = nbytes == nb and (hi <= allowed[1] or (code[1] == 0xC6))
                        why = "0x%02X with %d size byte(s) for sizes [%d, %d]" % (code[1], nbytes, lo, min(hi, 1 << 64))
                        if not ok:
                            why = "bin header 0x%02X needs %d size byte(s) and sizes <= %d; found %d byte(s) for sizes up to %d" % (code[1], nb, allowed[1], nbytes, min(hi, 1 << 64))
                ctx.ob(rule, "bin header: %s" % why.split(" for ")[0] if ok else "bin header path %d" % n, ok, fn.where, why)
            ctx.floor(rule, "bin header paths", n, 3)
            # coverage: every payload size, the empty one included, reaches a store
            los = []
            for path in paths:
                if any(e[0] == "store" and e[1] == "ptr" for e in path.events):
                    for s_, r_ in path.pc.items():
                        if s_.endswith(".size()"):
                            los.append(max(r_[0], 0))
            if los:
                ctx.ob(rule, "bin: every payload size from 0 reaches a header path", min(los) == 0, fn.where,
                       "smallest stored size 0" if min(los) == 0 else
                       "no path stores a binary of %d byte(s) or fewer: an empty MsgPackBinary with a valid pointer is dropped "
                       "and serialized as nil instead of C4 00" % (min(los) - 1))
        elif t0.endswith("MsgPackExtension"):
            paths = it.run(fn)
            n = 0
            spec = {0xC7: (1, (0, 0xFF)), 0xC8: (2, U16), 0xC9: (4, U32),
                    0xD4: (0, (1, 1)), 0xD5: (0, (2, 2)), 0xD6: (0, (4, 4)), 0xD7: (0, (8, 8)), 0xD8: (0, (16, 16))}
            seen = set()
            for path in paths:
                fm = [e for e in path.events if e[0] == "assign" and e[1] == "format"]
                sb = [e for e in path.events if e[0] == "assign" and e[1] == "sizeBytes"]
                if not fm or not sb:
                    continue
                szr = None
                for s, r in path.pc.items():
                    if s.endswith(".size()"):
                        szr = (max(r[0], 0), r[1])
                f, b = fm[-1][2], sb[-1][2]
                key = (f, b, szr)
                if key in seen:
                    continue
                seen.add(key)
                n += 1
                if not (absint.is_c(f) and absint.is_c(b)) or szr is None:
                    ctx.ob(rule, "ext header path %d" % n, None, fn.loc(fm[-1][3]), "format / sizeBytes are not constants on this path")
                    continue
                if f[1] not in spec:
                    ctx.ob(rule, "ext header 0x%02X" % f[1], False, fn.loc(fm[-1][3]), "0x%02X is not an ext format byte" % f[1])
                    continue
                nb, allowed = spec[f[1]]
                ok = b[1] == nb and (within(szr, allowed) or (f[1] == 0xC9 and szr[0] >= 0) or
                                     (f[1] == 0xC7 and szr[1] <= 0xFF))
                ctx.ob(rule, "ext header 0x%02X" % f[1], ok, fn.loc(fm[-1][3]),
                       "%d size byte(s), payload sizes [%d, %d]" % (b[1], szr[0], min(szr[1], 1 << 64)) if ok else
                       "ext format 0x%02X requires %d size byte(s) and a payload size in [%d, %d]; this path has %d size byte(s) "
                       "for sizes [%d, %d]" % (f[1], nb, allowed[0], allowed[1], b[1], szr[0], min(szr[1], 1 << 64)))
            ctx.floor(rule, "ext header paths", n, 8)
