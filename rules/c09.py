"""C09 — well-formed MessagePack decodes to the value it encodes; malformed
input is classified (dispatch-table clauses).

R-DISPATCH for each of the 256 first bytes, MsgPackDeserializer::parseVariant
           (and readKey for map keys) is folded by constant propagation with
           the byte fixed (lib/absint.py; the byte is a finite syntactic
           domain, no input is executed): the reads requested, the routine
           reached and its constant arguments must equal the row of the
           MessagePack specification for that byte, on the keep path and on
           the filter-skip path.
R-EMPTY    foundSomething_ is set only after the first byte was read
           successfully, and parse() returns EmptyInput exactly when it is
           unset.
R-INTRANGE in readInteger both setInteger calls are dominated by the test
           truncated == original (out-of-range integers become null).
R-RAW      readRawString reserves headerSize + n, copies headerSize header
           bytes and reads n payload bytes behind them.
R-WRAP     reader_.read()/readBytes() are called only by readByte /
           readBytes / skipBytes, each returning IncompleteInput on the short
           branch.
"""
from lib import absint
from lib import prog as P

EM = ("MsgPackDeserializer::readBytes", "MsgPackDeserializer::skipBytes", "MsgPackDeserializer::readInteger",
      "MsgPackDeserializer::readFloat", "MsgPackDeserializer::readDouble", "MsgPackDeserializer::readString",
      "MsgPackDeserializer::readRawString", "MsgPackDeserializer::readArray", "MsgPackDeserializer::readObject",
      "VariantData::setBoolean", "VariantData::setInteger", "MsgPackDeserializer::readByte")


def spec(c):
    """Row of the MessagePack format table for first byte c."""
    if c <= 0x7f:
        return {"kind": "int", "value": c}
    if c <= 0x8f:
        return {"kind": "map", "size": c & 0x0f, "sizeBytes": 0}
    if c <= 0x9f:
        return {"kind": "array", "size": c & 0x0f, "sizeBytes": 0}
    if c <= 0xbf:
        return {"kind": "str", "size": c & 0x1f, "sizeBytes": 0}
    if c == 0xc0:
        return {"kind": "nil"}
    if c == 0xc1:
        return {"kind": "invalid"}
    if c in (0xc2, 0xc3):
        return {"kind": "bool", "value": c - 0xc2}
    if 0xc4 <= c <= 0xc6:
        return {"kind": "bin", "sizeBytes": 1 << (c - 0xc4)}
    if 0xc7 <= c <= 0xc9:
        return {"kind": "ext", "sizeBytes": 1 << (c - 0xc7)}
    if c == 0xca:
        return {"kind": "f32"}
    if c == 0xcb:
        return {"kind": "f64"}
    if 0xcc <= c <= 0xcf:
        return {"kind": "uintN", "width": 1 << (c - 0xcc), "signed": 0}
    if 0xd0 <= c <= 0xd3:
        return {"kind": "uintN", "width": 1 << (c - 0xd0), "signed": 1}
    if 0xd4 <= c <= 0xd8:
        return {"kind": "fixext", "size": (1 << (c - 0xd4)) + 1, "sizeBytes": 0}
    if 0xd9 <= c <= 0xdb:
        return {"kind": "str", "sizeBytes": 1 << (c - 0xd9)}
    if 0xdc <= c <= 0xdd:
        return {"kind": "array", "sizeBytes": 2 << (c - 0xdc)}
    if 0xde <= c <= 0xdf:
        return {"kind": "map", "sizeBytes": 2 << (c - 0xde)}
    return {"kind": "int", "value": c - 256}


def summarize(path):
    ev = []
    for e in path.events:
        if e[0] == "call":
            nm = e[1].split("::")[-1]
            if nm in ("readFloat", "readDouble") and len(e) > 4:
                # keep the explicit template argument: readDouble<double>
                k = e[4]
                j = k.find("::" + nm + "<")
                if j >= 0:
                    nm = k[j + 2:k.index(">", j) + 1]
            ev.append((nm, [a[0] for a in e[2]]))
        elif e[0] == "incr" and e[1] == "size":
            ev.append(("size++", []))
        elif e[0] == "return":
            ev.append(("ret", [e[1]]))
    return ev


def cval(av):
    return av[1] if av and av[0] == "c" else None


def check_row(c, keep, ev, errors, E):
    """Compare the folded events with the spec row."""
    sp = spec(c)
    names = [n for n, _ in ev]
    # first read: exactly one byte
    if not ev or ev[0][0] != "readBytes" or cval(ev[0][1][1]) != 1:
        return "does not start by reading exactly one byte"
    body = ev[1:]
    bn = [n for n, _ in body]
    k = sp["kind"]

    def last_ret_const():
        return cval(body[-1][1][0]) if body and body[-1][0] == "ret" else None
    if k == "nil":
        if bn != ["ret"] or last_ret_const() != E["Ok"]:
            return "nil must consume nothing more and return Ok"
        return None
    if k == "invalid":
        if bn != ["ret"] or last_ret_const() != E["InvalidInput"]:
            return "the reserved byte 0xC1 must return InvalidInput"
        return None
    if k == "bool":
        if keep:
            if bn != ["setBoolean", "ret"] or cval(body[0][1][0]) != sp["value"] or last_ret_const() != E["Ok"]:
                return "must store %s and return Ok" % bool(sp["value"])
        elif bn != ["ret"] or last_ret_const() != E["Ok"]:
            return "skipped bool must consume nothing more"
        return None
    if k == "int":
        if keep:
            if bn != ["setInteger", "ret"] or cval(body[0][1][0]) != sp["value"] or last_ret_const() != E["Ok"]:
                return "fixint must store %d (found %s)" % (sp["value"], body[0][1][0] if body else None)
        elif bn != ["ret"] or last_ret_const() != E["Ok"]:
            return "skipped fixint must consume nothing more"
        return None
    if k in ("f32", "f64"):
        n = 4 if k == "f32" else 8
        if keep:
            want = "readFloat<float>" if k == "f32" else "readDouble<double>"
            if bn[:1] != [want]:
                return ("must be decoded by %s — the %d input bytes are an IEEE %s, converted to the stored type by the "
                        "language's rounding conversion — found %s" % (want, n, "binary32" if k == "f32" else "binary64", bn[:1]))
        elif bn[:1] != ["skipBytes"] or cval(body[0][1][0]) != n:
            return "skip path must skip %d bytes" % n
        return None
    if k == "uintN":
        if keep:
            if bn[:1] != ["readInteger"] or cval(body[0][1][1]) != sp["width"] or cval(body[0][1][2]) != sp["signed"]:
                return "must read a %d-byte %s integer (found width=%s signed=%s)" % (
                    sp["width"], "signed" if sp["signed"] else "unsigned",
                    cval(body[0][1][1]) if body and len(body[0][1]) > 2 else "?", cval(body[0][1][2]) if body and len(body[0][1]) > 2 else "?")
        elif bn[:1] != ["skipBytes"] or cval(body[0][1][0]) != sp["width"]:
            return "skip path must skip %d bytes" % sp["width"]
        return None
    # length-prefixed families
    sb = sp.get("sizeBytes", 0)
    i = 0
    if sb:
        if not (bn[:1] == ["readBytes"] and cval(body[0][1][1]) == sb):
            return "must read a %d-byte length (found %s)" % (sb, cval(body[0][1][1]) if body and body[0][0] == "readBytes" else "none")
        i = 1
    elif bn[:1] == ["readBytes"]:
        return "reads a length although the format has none"
    rest = body[i:]
    rn = [n for n, _ in rest]
    incs = rn.count("size++")
    rest = [x for x in rest if x[0] != "size++"]
    rn = [n for n, _ in rest]
    if k in ("ext", "fixext"):
        if k == "ext" and incs != 1:
            return "ext payload must include the type byte (size+1)"
    elif incs:
        return "size is incremented for a non-extension format"
    fixed = sp.get("size")
    if k == "fixext":
        fixed = sp["size"]  # payload + type byte
    if k in ("array", "map"):
        want = "readArray" if k == "array" else "readObject"
        if rn[:1] != [want]:
            return "must reach %s (found %s)" % (want, rn[:1])
        if fixed is not None and cval(rest[0][1][1]) != fixed:
            return "%s size must be %d" % (k, fixed)
        return None
    if k == "str":
        if keep:
            if rn[:1] != ["readString"]:
                return "must reach readString (found %s)" % rn[:1]
            if fixed is not None and cval(rest[0][1][1]) != fixed:
                return "fixstr size must be %d" % fixed
        else:
            if rn[:1] != ["skipBytes"]:
                return "skip path must skip the string bytes"
            if fixed is not None and cval(rest[0][1][0]) != fixed:
                return "must skip %d bytes" % fixed
        return None
    if k in ("bin", "ext", "fixext"):
        if keep:
            if rn[:1] != ["readRawString"]:
                return "must reach readRawString (found %s)" % rn[:1]
            if cval(rest[0][1][2]) != 1 + sb:
                return "raw value must keep %d header byte(s) (found %s)" % (1 + sb, cval(rest[0][1][2]))
            if fixed is not None and cval(rest[0][1][3]) != fixed:
                return "fixext payload+type must be %d bytes (found %s)" % (fixed, cval(rest[0][1][3]))
        else:
            if rn[:1] != ["skipBytes"]:
                return "skip path must skip the payload"
            if fixed is not None and cval(rest[0][1][0]) != fixed:
                return "must skip %d bytes (found %s)" % (fixed, cval(rest[0][1][0]))
        return None
    return "no rule for kind %s" % k


def key_spec(c):
    if 0xa0 <= c <= 0xbf:
        return ("str", 0, c & 0x1f)
    if 0xd9 <= c <= 0xdb:
        return ("str", 1 << (c - 0xd9), None)
    return ("invalid", 0, None)


def run(ctx, prog):
    from rules import shift
    shift.run(ctx, prog)
    shift.run_signext(ctx, prog)
    from rules import c05
    c05.false_only_on_failure(ctx, prog)
    E = {}
    for e in prog.enum("DeserializationError::Code"):
        for c in e["consts"]:
            E[c["n"]] = int(c["v"])
    if "Ok" not in E:
        ctx.brk("R-DISPATCH", "enum DeserializationError::Code not found")
        return
    rule = "R-DISPATCH"
    it = absint.Interp(prog, emit=EM)
    cands = [f for f in prog.q("MsgPackDeserializer::parseVariant")]
    # one instantiation per filter kind is enough: the reader type does not
    # appear in the dispatch; take the first of each
    chosen = {}
    for f in sorted(cands, key=lambda f: f.key):
        fk = "Filter" if "DeserializationOption::Filter" in f.key and "AllowAllFilter" not in f.key else "AllowAll"
        chosen.setdefault(fk, f)
    ctx.floor(rule, "parseVariant instantiations", len(cands), 4)
    nrows = 0
    for fk, fn in sorted(chosen.items()):
        for c in range(256):
            it.n_paths = 0
            paths = it.run(fn, {}, {"code": (c, c)})
            best = {}
            for path in paths:
                av = path.pc.get("allowValue")
                ev = summarize(path)
                if av not in best or len(ev) > len(best[av]):
                    best[av] = ev
            for av, keep in (((1, 1), True), ((0, 0), False)):
                nrows += 1
                inst = "0x%02X %s [%s]" % (c, "keep" if keep else "skip", fk)
                if av not in best:
                    ctx.ob(rule, inst, None, fn.where, "no path folded for this byte")
                    continue
                err = check_row(c, keep, best[av], None, E)
                ctx.ob(rule, inst, err is None, fn.where,
                       "matches the specification row (%s)" % spec(c)["kind"] if err is None else
                       "first byte 0x%02X is %s in the specification: %s" % (c, spec(c)["kind"], err),
                       nontrivial=True)
    ctx.count(rule + ":rows", nrows)
    # readKey
    for fn in prog.q("MsgPackDeserializer::readKey")[:1]:
        it.rebind_once = ("code",)
        for c in range(256):
            it.n_paths = 0
            paths = it.run(fn, {}, {"code": (c, c)})
            # code is read through readByte(code): the first call clobbers it;
            # re-pin it by choosing paths whose dispatch matches: we fix the
            # symbol before the call, the clobber makes it unknown -> so pin
            # through init_pc is lost.  Use the post-call symbol instead.
            best = None
            for path in paths:
                ev = summarize(path)
                if best is None or len(ev) > len(best):
                    best = ev
            kind, sb, fixed = key_spec(c)
            names = [n for n, _ in best]
            inst = "key 0x%02X" % c
            if kind == "invalid":
                ok = names == ["readByte", "ret"] and cval(best[-1][1][0]) == E["InvalidInput"]
                ctx.ob(rule, inst, ok, fn.where, "non-string key rejected with InvalidInput" if ok else
                       "a map key starting with 0x%02X must be rejected with InvalidInput, found %s" % (c, names))
            else:
                nread = names.count("readByte")
                rs = [a for n, a in best if n == "readString"]
                ok = nread == 1 + sb and len(rs) == 1 and (fixed is None or cval(rs[0][0]) == fixed)
                ctx.ob(rule, inst, ok, fn.where, "string key with %d length byte(s)" % sb if ok else
                       "string key format 0x%02X needs %d length byte(s)%s; found %d byte reads and %s" %
                       (c, sb, " and size %d" % fixed if fixed is not None else "", nread - 1, names))
    ctx.floor(rule, "readKey", len(prog.q("MsgPackDeserializer::readKey")), 1)

    # ---------------------------------------------------------------- R-EMPTY
    rule = "R-EMPTY"
    for fk, fn in sorted(chosen.items()):
        sets = []
        for i in fn.walk():
            st = fn.s(i)
            if st["k"] == "BinaryOperator" and st["op"] == "=":
                l = fn.s(fn.strip(st["c"][0], casts=True))
                if l["k"] == "MemberExpr" and l["m"] == "foundSomething_":
                    sets.append(i)
        first_read = None
        for i, st in fn.calls():
            if st["callee"]["q"].endswith("MsgPackDeserializer::readBytes") and first_read is None:
                first_read = i
        ok = False
        for i in sets:
            for cond, pol in fn.guards_of(i):
                c = fn.s(fn.strip(cond, casts=True))
                if c["k"] == "DeclRefExpr" and c["ref"]["n"] == "err" and pol is False and first_read is not None and fn.stmt_dominates(first_read, i):
                    ok = True
        ctx.ob(rule, "foundSomething_ set only after a successful first read [%s]" % fk, ok and len(sets) == 1, fn.where,
               "" if ok else "foundSomething_ = true is not dominated by the success edge of the first readBytes: empty input is misclassified")
    for fn in prog.q("MsgPackDeserializer::parse")[:2]:
        ok = False
        for i in fn.walk():
            st = fn.s(i)
            if st["k"] == "ConditionalOperator":
                c = fn.s(fn.strip(st["c"][0], casts=True))
                f_ = fn.s(fn.strip(st["c"][2], casts=True))
                if c["k"] == "MemberExpr" and c["m"] == "foundSomething_" and fn.const(st["c"][2]) == E["EmptyInput"]:
                    ok = True
        ctx.ob(rule, "parse() returns EmptyInput iff nothing was found", ok, fn.where, "")

    # ---------------------------------------------------------------- R-INTRANGE
    rule = "R-INTRANGE"
    n = 0
    seen_sites = set()
    for fn in sorted(prog.fns.values(), key=lambda f: f.key):
        if not fn.cls.endswith("MsgPackDeserializer"):
            continue
        for i, st in fn.calls():
            if not st["callee"]["q"].endswith("VariantData::setInteger"):
                continue
            sk = (fn.name, fn.loc(i), tuple(fn.d.get("targs") or ()))
            if sk in seen_sites:
                continue
            seen_sites.add(sk)
            a0 = fn.s(fn.strip(st["args"][0], casts=False))
            while a0["k"] in P.TRANSPARENT:
                a0 = fn.s(a0["c"][0])
            if a0["k"] != "DeclRefExpr" or a0["ref"]["k"] != "local":
                continue            # a constant or an expression (e.g. the fixint byte): nothing was truncated into a variable
            dx = a0["ref"]["d"]
            # the wide source the stored variable was truncated from
            src = None
            for j in fn.walk():
                sj = fn.s(j)
                if sj["k"] == "DeclStmt":
                    for dd in sj["decls"]:
                        if dd["d"] == dx and "init" in dd:
                            src = fn.text(fn.strip(dd["init"], casts=True))
            if src is None:
                continue
            n += 1
            ok = False
            for cond, pol in fn.guards_of(i):
                c = fn.s(fn.strip(cond, casts=True))
                if c["k"] == "BinaryOperator" and ((c["op"] == "==" and pol is True) or (c["op"] == "!=" and pol is False)):
                    sides = [fn.s(fn.strip(x, casts=True)) for x in c["c"]]
                    texts = [fn.text(fn.strip(x, casts=True)) for x in c["c"]]
                    if any(sx.get("ref", {}).get("d") == dx for sx in sides) and (src is None or src in texts):
                        ok = True
            ctx.ob(rule, "%s: %s stored only if it survives truncation" % (fn.name, a0["ref"]["n"]), ok, fn.loc(i),
                   "setInteger dominated by truncated == original" if ok else
                   "an integer outside the configured range is stored truncated instead of becoming null")
    ctx.floor(rule, "setInteger sites of truncated integers in MsgPackDeserializer", n, 2)

    # ---------------------------------------------------------------- R-RAW
    rule = "R-RAW"
    for fn in prog.q("MsgPackDeserializer::readRawString")[:1]:
        pn = {p["n"]: p["d"] for p in fn.params}
        ok_res = ok_cpy = ok_read = False
        total = None
        for i in fn.walk():
            st = fn.s(i)
            if st["k"] == "DeclStmt" and st["decls"][0]["n"] == "totalSize":
                txt = fn.text(st["decls"][0]["init"])
                total = st["decls"][0]["d"]
                ok_tot = "headerSize" in txt and "+" in txt and " n" in txt + " "
        for i, st in fn.calls():
            nm = st["callee"]["q"].split("::")[-1]
            if nm == "reserve":
                a = fn.s(fn.strip(st["args"][0], casts=True))
                ok_res = a["k"] == "DeclRefExpr" and a["ref"]["d"] == total
            if nm == "memcpy":
                a = fn.s(fn.strip(st["args"][2], casts=True))
                ok_cpy = a["k"] == "DeclRefExpr" and a["ref"]["n"] == "headerSize"
            if nm == "readBytes":
                a = fn.s(fn.strip(st["args"][1], casts=True))
                dst = fn.text(st["args"][0])
                ok_read = a["k"] == "DeclRefExpr" and a["ref"]["n"] == "n" and "headerSize" in dst
        ok = ok_res and ok_cpy and ok_read
        ctx.ob(rule, "readRawString keeps header and payload in one buffer of headerSize+n", ok, fn.where,
               "reserve(headerSize+n); memcpy(header, headerSize); readBytes(p+headerSize, n)" if ok else
               "reserve/memcpy/readBytes sizes do not add up (reserve=%s copy=%s read=%s)" % (ok_res, ok_cpy, ok_read))
    ctx.floor(rule, "readRawString", len(prog.q("MsgPackDeserializer::readRawString")), 1)

    # ---------------------------------------------------------------- R-WRAP
    rule = "R-WRAP"
    nw = 0
    for fn in sorted(prog.fns.values(), key=lambda f: f.key):
        if not fn.cls.endswith("MsgPackDeserializer"):
            continue
        for i, st in fn.calls():
            q = st["callee"]["q"]
            if "obj" in st and q.split("::")[-1] in ("read", "readBytes") and "Reader" in q:
                nw += 1
                ok = fn.name in ("readByte", "readBytes", "skipBytes")
                ctx.ob(rule, "%s reads the input through the wrappers" % fn.short, ok, fn.loc(i),
                       "" if ok else "the reader is called outside readByte/readBytes/skipBytes: a short read is not turned into IncompleteInput")
    for name in ("readByte", "readBytes", "skipBytes"):
        for fn in prog.q("MsgPackDeserializer::" + name)[:8]:
            if name == "readBytes" and len(fn.params) != 2:
                continue
            has = any(fn.s(j)["k"] == "DeclRefExpr" and fn.s(j)["ref"]["k"] == "enumerator" and fn.s(j)["ref"]["n"] == "IncompleteInput" for j in fn.walk())
            ctx.ob(rule, "%s returns IncompleteInput on a short read" % name, has, fn.where, "", nontrivial=False)
    ctx.floor(rule, "reader call sites", nw, 3)
    # strings are byte-exact: no length is dropped on the reader side
    from rules import nul
    nul.run(ctx, prog, rule="R-NUL", only_files=["Memory/StringBuffer.hpp", "MsgPack/MsgPackDeserializer.hpp", "Memory/StringPool.hpp"])
    ctx.doc("R-NUL", "no sized string loses its length in the MessagePack reader and its string buffer")
    for r_ in ("R-DISPATCH", "R-EMPTY", "R-INTRANGE", "R-RAW", "R-WRAP"):
        ctx.doc(r_, [l.strip() for l in __doc__.split("\n") if l.startswith(r_)][0])
