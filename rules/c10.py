"""C10 — deserializeJson accepts exactly the documented dialect and classifies
the rest (classification-discipline clauses; language equality NOT decided)."""
from rules import jsonparse as J


def run(ctx, prog):
    J.r_closer(ctx, prog)
    J.r_ws(ctx, prog)
    J.r_progress(ctx, prog)
    J.r_whoret(ctx, prog)
    J.r_optgate(ctx, prog)
    J.r_numall(ctx, prog)
    J.r_numbuf(ctx, prog)
    J.r_validafter(ctx, prog)
    from rules import scan
    scan.run(ctx, prog)
    from rules import unicode
    unicode.run(ctx, prog, only_hex=True)
    J.r_numlook(ctx, prog)
    # which escapes exist is part of the dialect: the escape table and its scan loops
    from rules import c17
    c17.escape_rules(ctx, prog)
