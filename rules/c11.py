"""C11 — filtering equals projecting the unfiltered result (structural clauses;
projection equality itself is NOT decided).

R-SKIPALLOC  skip routines reach no allocation (filtering never requests more
             memory): call-graph reachability from every skip*/skipBytes.
R-PLUMB      the filter handed to a child is the one obtained by indexing the
             parent filter (filter[0] for elements, filter[key] for members),
             never the parent filter itself; each parse/skip decision of
             parseVariant branches on allowArray/allowObject/allowValue and
             selects the parse routine or the skip routine of the same kind;
             AllowAllFilter's predicates are the literal true.
R-TRUTHY     the keep decision of a filter entry (Filter::allow) is the
             library's own truthiness conversion of the entry: allow() reaches
             VariantData::asBoolean in the resolved call graph ("a true-ish
             entry keeps the member"; a decision assembled from the kind
             predicates alone drops members whose entry is "yes" or 2).
R-NUL        keys reach the filter with their length.
R-NULLDST    null-destination discipline of the MessagePack reader (+ lemma
             R-FILTERIDX).
R-TOODEEP    depth accounting is the same on the parse and on the skip path
             (shared with C15).
"""
from lib import prog as P
from rules import nul, nulldst

ALLOC = ("ResourceManager::allocVariant", "ResourceManager::allocExtension", "ResourceManager::saveString",
         "ResourceManager::createString", "ResourceManager::resizeString", "StringBuilder::append",
         "StringBuffer::reserve", "MemoryPoolList::allocSlot", "StringNode::create")
PAIRS = {  # parse routine -> (skip routine, filter predicate)
    "parseArray": ("skipArray", "allowArray"), "parseObject": ("skipObject", "allowObject"),
    "parseStringValue": ("skipQuotedString", "allowValue"), "parseNumericValue": ("skipNumericValue", "allowValue"),
}


def run(ctx, prog):
    from rules import scan
    scan.run(ctx, prog)
    rule = "R-SKIPALLOC"
    allocs = {f.key for f in prog.q(*ALLOC)}
    n = 0
    for fn in sorted(prog.fns.values(), key=lambda f: f.key):
        if not ((fn.cls.endswith("JsonDeserializer") and fn.name.startswith("skip") and fn.name != "skipSpacesAndComments") or
                (fn.cls.endswith("MsgPackDeserializer") and fn.name == "skipBytes")):
            continue
        n += 1
        hit = prog.reachable([fn.key]) & allocs
        path = prog.find_path(fn.key, hit) if hit else None
        ctx.ob(rule, "%s allocates nothing" % fn.short, not hit, fn.where,
               "" if not hit else "a skip routine reaches %s: discarding input requests memory (path %s)" %
               (prog.fns[path[-1]].short, " -> ".join(prog.fns[k].short for k in path)), nontrivial=False)
    ctx.floor(rule, "skip routines", n, 8)

    rule = "R-PLUMB"
    np_ = 0
    for cls, fnames in (("JsonDeserializer", ("parseArray", "parseObject")), ("MsgPackDeserializer", ("readArray", "readObject"))):
        for nm in fnames:
            for fn in sorted(prog.q("%s::%s" % (cls, nm)), key=lambda f: f.key)[:2]:
                fparam = [p for p in fn.params if "Filter" in p["t"]]
                if not fparam:
                    continue
                fpd = fparam[0]["d"]
                derived = {}
                for i in fn.walk():
                    st = fn.s(i)
                    if st["k"] == "DeclStmt":
                        for dd in st["decls"]:
                            if "init" in dd and "Filter" in dd["t"]:
                                for j in fn.walk(dd["init"]):
                                    sj = fn.s(j)
                                    if sj["k"] == "CXXOperatorCallExpr" and sj.get("callee", {}).get("q", "").endswith("operator[]"):
                                        a0 = fn.s(fn.strip(sj["args"][0], casts=True))
                                        if a0["k"] == "DeclRefExpr" and a0["ref"]["d"] == fpd:
                                            derived[dd["d"]] = fn.text(sj["args"][1])
                for i, st in fn.calls():
                    if st["callee"]["q"].endswith("::parseVariant"):
                        np_ += 1
                        callee = prog.fns.get(st["callee"]["key"])
                        idx = [k for k, p in enumerate(callee.params) if "Filter" in p["t"]][0] if callee else 1
                        a = st["args"][idx]
                        used = None
                        for j in fn.walk(a):
                            sj = fn.s(j)
                            if sj["k"] == "DeclRefExpr" and sj["ref"]["k"] in ("local", "parm") and "Filter" in sj.get("t", ""):
                                used = sj["ref"]["d"]
                        ok = used in derived
                        ctx.ob(rule, "%s::%s hands the child its own sub-filter" % (cls, nm), ok, fn.loc(i),
                               "filter[%s]" % derived.get(used) if ok else
                               "the child value is parsed with %s instead of the filter obtained by indexing it: the projection is wrong one level down" %
                               ("the parent filter" if used == fpd else "another filter"))
    ctx.floor(rule, "child parse calls", np_, 4)
    for fn in sorted(prog.q("JsonDeserializer::parseVariant"), key=lambda f: f.key)[:4]:
        for i, st in fn.calls():
            nm = st["callee"]["q"].split("::")[-1]
            for parse, (skip, pred) in PAIRS.items():
                if nm not in (parse, skip):
                    continue
                want_pol = nm == parse
                ok = False
                for cond, pol in fn.guards_of(i):
                    c = fn.s(fn.strip(cond, casts=True))
                    if c["k"] in P.CALL_KINDS and c.get("callee", {}).get("q", "").split("::")[-1] == pred and pol == want_pol:
                        ok = True
                ctx.ob(rule, "parseVariant: %s under %s%s()" % (nm, "" if want_pol else "!", pred), ok, fn.loc(i),
                       "" if ok else "%s is not selected by the %s() result of the filter for its kind" % (nm, pred), nontrivial=False)
    for fn in prog.fns.values():
        if fn.cls.endswith("AllowAllFilter") and fn.name.startswith("allow"):
            rets = [j for j in fn.walk() if fn.s(j)["k"] == "ReturnStmt"]
            ok = len(rets) == 1 and fn.s(fn.strip(fn.s(rets[0])["c"][0], casts=True)).get("v") is True
            ctx.ob(rule, "AllowAllFilter::%s() is the literal true" % fn.name, ok, fn.where, "", nontrivial=False)

    rule = "R-TRUTHY"
    asb = {f.key for f in prog.q("VariantData::asBoolean")}
    nt = 0
    for fn in sorted(prog.fns.values(), key=lambda f: f.key):
        if fn.cls.endswith("DeserializationOption::Filter") and fn.name == "allow":
            nt += 1
            hit = prog.reachable([fn.key]) & asb
            path = prog.find_path(fn.key, hit) if hit else None
            ctx.ob(rule, "Filter::allow() is the truthiness of the entry", bool(hit) and bool(asb), fn.where,
                   ("via " + " -> ".join(prog.fns[k].short for k in path)) if hit else
                   "Filter::allow() no longer reaches VariantData::asBoolean: whether a member is kept is not decided by the "
                   "truthiness of its filter entry (entries such as \"yes\" or 2 are true-ish and must keep the member)")
    ctx.floor(rule, "Filter::allow definitions", nt, 1)
    ctx.doc(rule, "Filter::allow() reaches VariantData::asBoolean (call-graph must-reach)")

    nul.run(ctx, prog, rule="R-NUL", only_files=["Json/JsonDeserializer.hpp", "MsgPack/MsgPackDeserializer.hpp", "Deserialization/",
                                                 "Memory/StringBuffer.hpp", "Memory/StringBuilder.hpp"])
    nulldst.run(ctx, prog)
    # depth accounting on both paths
    from rules import c15
    sub = type(ctx)(ctx.prop, ctx.tier)
    sub.config = ctx.config
    c15.run(sub, prog)
    for o in sub.obs:
        if o.rule == "R-TOODEEP":
            ctx.obs.append(o)
    for r_ in ("R-SKIPALLOC", "R-PLUMB"):
        ctx.doc(r_, [l.strip() for l in __doc__.split("\n") if l.startswith(r_)][0])
    ctx.doc("R-NUL", "keys reach the filter with their length")
    ctx.doc("R-TOODEEP", "depth accounting identical on parse and skip paths (rules/c15.py)")
