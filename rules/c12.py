"""C12 — numbers survive text (table clause only).

R-POW10  the binary-powers-of-ten tables of FloatTraits feed every
         multiplication of make_float / normalize.  Each entry i must be
         within the property's own tolerance of 10^(+-2^i): relative error
         <= 2e-13 for the 64-bit tables and <= 2e-6 for the 32-bit tables
         (otherwise a literal whose decimal exponent has bit i set cannot meet
         the 1e-13 / 1e-6 bound).  Entries that are within tolerance but not
         the correctly rounded value are reported as notes.  Table lengths
         cover exponent_max, mantissa_bits/mantissa_max match the IEEE format,
         inf/nan/highest/lowest bit patterns are the IEEE ones.
Rounding, carries and exact integers are numerical behaviour and NOT decided.
"""
import struct
from fractions import Fraction

from lib import prog as P


def bits_to_fraction(bits, width):
    if width == 64:
        s, e, m, bias, mb = bits >> 63, (bits >> 52) & 0x7FF, bits & ((1 << 52) - 1), 1023, 52
        emax = 0x7FF
    else:
        s, e, m, bias, mb = bits >> 31, (bits >> 23) & 0xFF, bits & ((1 << 23) - 1), 127, 23
        emax = 0xFF
    if e == emax:
        return None
    if e == 0:
        v = Fraction(m, 1 << mb) * Fraction(2) ** (1 - bias)
    else:
        v = (1 + Fraction(m, 1 << mb)) * Fraction(2) ** (e - bias)
    return -v if s else v


def nearest_bits(fr, width):
    if width == 64:
        return struct.unpack("<Q", struct.pack("<d", float(fr)))[0]
    # float32: round via double then check neighbours exactly
    b = struct.unpack("<I", struct.pack("<f", float(fr)))[0]
    best = b
    bd = abs(bits_to_fraction(b, 32) - fr)
    for cand in (b - 1, b + 1):
        v = bits_to_fraction(cand, 32)
        if v is not None and abs(v - fr) < bd:
            best, bd = cand, abs(v - fr)
    return best


def run(ctx, prog):
    rule = "R-POW10"
    tabs = []
    for g in prog.globals:
        if g.get("dependent") or not g.get("values"):
            continue
        q = g["q"]
        if "BinaryPowersOfTen" not in q:
            continue
        width = 64 if "uint64_t" in g["t"] or "unsigned long" in g["t"] else 32
        sign = 1 if "positiveBinaryPowersOfTen" in q else -1
        tabs.append((q, width, sign, [int(v) for v in g["values"]], g))
    ctx.floor(rule, "power-of-ten tables", len(tabs), 2)
    for q, width, sign, vals, g in sorted(tabs):
        tol = Fraction(2, 10 ** 13) if width == 64 else Fraction(2, 10 ** 6)
        name = "%s%d" % ("positive" if sign > 0 else "negative", width)
        where = "%s:%d" % (P.relfile(g["file"]), g["line"])
        for i, b in enumerate(vals):
            exact = Fraction(10) ** (sign * (1 << i))
            v = bits_to_fraction(b, width)
            inst = "%s[%d] ~ 1e%+d" % (name, i, sign * (1 << i))
            if v is None or v <= 0:
                ctx.ob(rule, inst, False, where, "entry 0x%x is not a finite positive number" % b)
                continue
            rel = abs(v - exact) / exact
            ok = rel <= tol
            ctx.ob(rule, inst, ok, where,
                   "relative error %.3g within %.0e" % (float(rel), float(tol)) if ok else
                   "entry 0x%x = %.17g differs from 1e%+d by a relative %.3g > %.0e: every literal whose decimal exponent has "
                   "bit %d set is multiplied by it and cannot meet the accuracy the property states" %
                   (b, float(v), sign * (1 << i), float(rel), float(tol), i))
            nb = nearest_bits(exact, width)
            if ok and nb != b:
                ctx.note("%s: 0x%x is within tolerance but the correctly rounded value is 0x%x" % (inst, b, nb))
        # coverage of exponent_max
        emax = None
        for h in prog.globals:
            if h["q"].endswith("FloatTraits::exponent_max") and not h.get("dependent") and h.get("value") is not None:
                ev = int(h["value"])
                if (width == 64 and ev > 100) or (width == 32 and ev <= 100):
                    emax = ev
        if emax is not None:
            ok = (1 << len(vals)) > emax
            ctx.ob(rule, "%s covers exponent_max" % name, ok, where, "2^%d > %d" % (len(vals), emax) if ok else
                   "table of %d entries cannot decompose exponents up to %d" % (len(vals), emax))
    # mantissa constants
    for h in prog.globals:
        if h.get("dependent") or h.get("value") is None:
            continue
        if h["q"].endswith("FloatTraits::mantissa_bits"):
            v = int(h["value"])
            ctx.ob(rule, "mantissa_bits=%d is an IEEE width" % v, v in (52, 23), "Numbers/FloatTraits.hpp", "")
        if h["q"].endswith("FloatTraits::mantissa_max"):
            v = int(h["value"])
            ctx.ob(rule, "mantissa_max=2^%d-1" % (v + 1).bit_length().__sub__(1), v in ((1 << 52) - 1, (1 << 23) - 1), "Numbers/FloatTraits.hpp", str(v))
    # bit patterns of inf / nan / highest / lowest
    want = {
        (8, "inf"): 0x7ff0000000000000, (8, "highest"): 0x7FEFFFFFFFFFFFFF, (8, "lowest"): 0xFFEFFFFFFFFFFFFF,
        (4, "inf"): 0x7f800000, (4, "highest"): 0x7f7fffff, (4, "lowest"): 0xFf7fffff,
    }
    nb = 0
    for fn in sorted(prog.fns.values(), key=lambda f: f.key):
        if not fn.cls.endswith("FloatTraits") or fn.name not in ("inf", "nan", "highest", "lowest"):
            continue
        size = 8 if ", 8>" in fn.d.get("clsfull", "") else 4
        lit = None
        for i, st in fn.calls():
            if st["callee"]["q"].endswith("forge"):
                lit = fn.const(st["args"][0])
        if lit is None:
            continue
        nb += 1
        if fn.name == "nan":
            e_all = (lit >> 52) & 0x7FF == 0x7FF if size == 8 else (lit >> 23) & 0xFF == 0xFF
            m_nz = lit & ((1 << 52) - 1) if size == 8 else lit & ((1 << 23) - 1)
            ctx.ob(rule, "FloatTraits<%d>::nan() is a NaN pattern" % size, bool(e_all and m_nz), fn.where, "0x%x" % lit)
        else:
            ctx.ob(rule, "FloatTraits<%d>::%s() bit pattern" % (size, fn.name), lit == want[(size, fn.name)], fn.where,
                   "0x%x" % lit if lit == want[(size, fn.name)] else "0x%x, expected 0x%x" % (lit, want[(size, fn.name)]))
    ctx.floor(rule, "forge() constants", nb, 1)
    ctx.doc(rule, "power-of-ten tables within the property's tolerance; IEEE constants")
    from rules import accum
    accum.run(ctx, prog)
    accum.run_lockstep(ctx, prog)
    from rules import numparse
    numparse.run(ctx, prog)
