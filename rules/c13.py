"""C13 — typed extraction is exact when it fits and zero otherwise, never
undefined (structural clauses).

R-GUARD    for every instantiation canConvertNumber<TOut,TIn> the accepted set
           is decided exactly: the predicate is piecewise constant between the
           constants it compares with (clang-folded numeric_limits / the
           forge() bit patterns of highest_for / integer-to-float roundings),
           so folding its CFG on one representative per region (each constant,
           its two neighbours, and NaN for floating TIn) yields the accepted
           interval; it must equal {v in TIn | TOut_min <= v <= TOut_max} on
           TIn's grid, and NaN must be rejected.
R-CONVERT  convertNumber<TOut,TIn> casts only on the true arm of that guard,
           for the same operand, and yields the literal 0 otherwise; every
           other floating->integer conversion in the library is in the frozen
           exception table.
R-SIBLING  asIntegral<T>/isInteger<T>: each numeric tag returns
           convertNumber<T>(m) resp. canConvertNumber<T>(m) of the same member
           m, with no further condition.
R-TAG      union-tag discipline (shared with C14).
R-COPYARR  copyArray never writes beyond its destination: dst[i++] under
           i < len; the char[N] form copies at most N-1 bytes and terminates
           inside the array.
"""
import struct
from fractions import Fraction

from lib import absint
from lib import prog as P
from rules import tags

TK = {
    "signed char": "s8", "unsigned char": "u8", "char": "s8", "short": "s16", "unsigned short": "u16",
    "int": "s32", "unsigned int": "u32", "long": "s64", "unsigned long": "u64",
    "long long": "s64", "unsigned long long": "u64", "float": "f32", "double": "f64", "bool": "bool",
}

FP_EXCEPTIONS = {
    "decomposeFloat": "value was normalised below 1e9 before the conversion",
    "FloatParts::FloatParts": "value was normalised below 1e9 before the conversion",
    "MsgPackSerializer::visit": "under canConvertNumber<JsonInteger>(value32)",
    "convertNumber": "the guarded cast itself",
    "VariantData::setFloat": "float(double) is a floating conversion",
}


def f_round(fr, tk):
    """Round an exact rational to the nearest value of the float type."""
    if tk == "f64":
        return Fraction(float(fr))
    return Fraction(struct.unpack("<f", struct.pack("<f", float(fr)))[0])


def f_next(fr, tk, up=True):
    import math
    if tk == "f64":
        x = float(fr)
        return Fraction(math.nextafter(x, math.inf if up else -math.inf))
    b = struct.unpack("<I", struct.pack("<f", float(fr)))[0]
    x = float(fr)
    if x == 0:
        b2 = 1 if up else 0x80000001
    elif (x > 0) == up:
        b2 = b + 1
    else:
        b2 = b - 1
    return Fraction(struct.unpack("<f", struct.pack("<I", b2))[0])


def bits_value(bits, tk):
    if tk == "f64":
        return Fraction(struct.unpack("<d", struct.pack("<Q", bits))[0])
    return Fraction(struct.unpack("<f", struct.pack("<I", bits))[0])


class Unk(Exception):
    pass


NAN = "nan"


def num(fn, i, point, tin, prog, depth=0):
    """Exact value of numeric expression i at the symbolic point.
    point = (Fraction k, delta in {-1,0,1}) or NAN.  Returns same form."""
    st = fn.s(i)
    k = st["k"]
    ch = [c for c in st["c"] if c is not None and c >= 0]
    if k == "DeclRefExpr" and st["ref"]["k"] == "parm":
        return point
    if k in ("ParenExpr", "ExprWithCleanups", "MaterializeTemporaryExpr", "CXXBindTemporaryExpr"):
        return num(fn, ch[0], point, tin, prog, depth)
    if "cv" in st and not any(fn.s(x)["k"] == "DeclRefExpr" and fn.s(x)["ref"]["k"] == "parm" for x in fn.walk(i)):
        return (Fraction(int(st["cv"])), 0)
    if k == "ImplicitCastExpr" or k in P.EXPLICIT_CASTS:
        ck = st.get("ck")
        v = num(fn, ch[0], point, tin, prog, depth)
        if v == NAN:
            return v
        if ck == "IntegralToFloating":
            if v[1] != 0:
                return v
            return (f_round(v[0], st.get("tk")), 0)
        if ck == "IntegralCast":
            r = absint.type_range(st.get("tk"))
            if r and v[1] == 0 and v[0].denominator == 1:
                return (Fraction(absint.wrap(int(v[0]), st.get("tk"))), 0)
            return v
        if ck in ("LValueToRValue", "NoOp", "FloatingCast"):
            if ck == "FloatingCast" and v[1] == 0:
                return (f_round(v[0], st.get("tk")), 0)
            return v
        return v
    if k == "FloatingLiteral":
        return (Fraction(float(st["v"])), 0)
    if k in P.CALL_KINDS and "callee" in st:
        callee = prog.fns.get(st["callee"]["key"])
        if callee is not None and depth < 3:
            # FloatTraits<T>::highest_for<TOut>() { return forge(0x...); }
            rets = [j for j in callee.walk() if callee.s(j)["k"] == "ReturnStmt"]
            if len(rets) == 1:
                r = callee.s(callee.strip(callee.s(rets[0])["c"][0], casts=True))
                if r["k"] in P.CALL_KINDS and r.get("callee", {}).get("q", "").endswith("forge"):
                    bits = callee.const(r["args"][0])
                    if bits is not None:
                        return (bits_value(bits, callee.d.get("retk") or tin), 0)
                if "cv" in r:
                    return (Fraction(int(r["cv"])), 0)
        raise Unk("call " + st["callee"]["q"])
    if k == "UnaryOperator" and st["op"] == "-":
        v = num(fn, ch[0], point, tin, prog, depth)
        return NAN if v == NAN else (-v[0], -v[1])
    raise Unk(k)


def cmp_points(a, op, b):
    if a == NAN or b == NAN:
        return op == "!="
    x = (a[0], a[1])
    y = (b[0], b[1])
    return {"<": x < y, "<=": x <= y, ">": x > y, ">=": x >= y, "==": x == y, "!=": x != y}[op]


def boolean(fn, i, point, tin, prog):
    st = fn.s(i)
    k = st["k"]
    ch = [c for c in st["c"] if c is not None and c >= 0]
    if k in P.TRANSPARENT or k in P.EXPLICIT_CASTS:
        return boolean(fn, ch[0], point, tin, prog)
    if k == "CXXBoolLiteralExpr":
        return bool(st["v"])
    if k == "BinaryOperator":
        if st["op"] == "&&":
            return boolean(fn, ch[0], point, tin, prog) and boolean(fn, ch[1], point, tin, prog)
        if st["op"] == "||":
            return boolean(fn, ch[0], point, tin, prog) or boolean(fn, ch[1], point, tin, prog)
        if st["op"] in ("<", "<=", ">", ">=", "==", "!="):
            return cmp_points(num(fn, ch[0], point, tin, prog), st["op"], num(fn, ch[1], point, tin, prog))
    if k == "UnaryOperator" and st["op"] == "!":
        return not boolean(fn, ch[0], point, tin, prog)
    if "cv" in st:
        return st["cv"] != "0"
    raise Unk("bool " + k)


def fold_pred(fn, point, tin, prog):
    """Follow the CFG of a predicate at a symbolic point."""
    blocks = fn.blocks()
    b = fn.cfg["entry"]
    for _ in range(200):
        blk = blocks[b]
        for e in blk["el"]:
            if isinstance(e, int) and fn.s(e)["k"] == "ReturnStmt":
                ch = [c for c in fn.s(e)["c"] if c is not None and c >= 0]
                return boolean(fn, ch[0], point, tin, prog)
        succ = blk["succ"]
        if "cond" in blk and len(succ) == 2:
            t = boolean(fn, blk["cond"], point, tin, prog)
            b = succ[0] if t else succ[1]
        elif succ:
            b = succ[0]
        else:
            break
    raise Unk("no return")


def constants_of(fn, tin, prog):
    out = set()
    for i in fn.walk():
        st = fn.s(i)
        if st["k"] == "BinaryOperator" and st["op"] in ("<", "<=", ">", ">=", "==", "!="):
            for c in st["c"]:
                try:
                    v = num(fn, c, (Fraction(0), 0), tin, prog)
                except Unk:
                    continue
                if v != NAN and not any(fn.s(x)["k"] == "DeclRefExpr" and fn.s(x)["ref"]["k"] == "parm" for x in fn.walk(c)):
                    out.add(v[0])
    return out


def targs_of(fn):
    ta = fn.d.get("targs") or []
    if len(ta) >= 2:
        return ta[0], ta[1]
    # deduced TIn: from the parameter
    if len(ta) == 1 and fn.params:
        return ta[0], fn.params[0]["t"]
    return None, None


def run(ctx, prog):
    rule = "R-GUARD"
    n = 0
    for fn in sorted(prog.q("detail::canConvertNumber"), key=lambda f: f.key):
        to, ti = targs_of(fn)
        tout, tin = TK.get(to), TK.get(ti)
        inst = "canConvertNumber<%s,%s>" % (to, ti)
        if tout is None or tin is None:
            ctx.ob(rule, inst, None, fn.where, "unknown type names")
            continue
        n += 1
        if tout.startswith("f"):
            # any number converts to a floating type
            try:
                ok = fold_pred(fn, (Fraction(0), 0), tin, prog) is True and not constants_of(fn, tin, prog)
            except Unk as e:
                ok = None
            ctx.ob(rule, inst, ok, fn.where, "always true for a floating target", nontrivial=False)
            continue
        rout = absint.type_range(tout)
        try:
            ks = constants_of(fn, tin, prog)
            pts = set()
            for k in ks | {Fraction(rout[0]), Fraction(rout[1]), Fraction(0)}:
                for d in (-1, 0, 1):
                    pts.add((k, d))
            if tin.startswith("f"):
                pts.add(NAN)
            bad = None
            rin = absint.type_range(tin)
            for pt in sorted(pts, key=lambda p: (p != NAN, p)):
                if pt != NAN and rin is not None:
                    # integral TIn: neighbours are k-1, k+1; skip points outside TIn
                    v = pt[0] + pt[1]
                    if v < rin[0] or v > rin[1]:
                        continue
                    pt = (v, 0)
                acc = fold_pred(fn, pt, tin, prog)
                if pt == NAN:
                    want = False
                else:
                    want = (Fraction(rout[0]), 0) <= pt <= (Fraction(rout[1]), 0)
                    if tin.startswith("f") and acc != want:
                        # on the float grid a disagreement matters only if a
                        # representable value lies in the disputed region
                        if not region_has_float(pt, ks, rout, tin):
                            continue
                if acc != want and bad is None:
                    bad = (pt, acc, want)
            if bad:
                pt, acc, want = bad
                desc = "NaN" if pt == NAN else ("%s%s" % (float(pt[0]) if pt[0].denominator != 1 or abs(pt[0]) > 1 << 62 else int(pt[0]),
                                                         {0: "", 1: " + eps", -1: " - eps"}[pt[1]]))
                ctx.ob(rule, inst, False, fn.where,
                       "value %s is %s but %s be: %s" % (desc, "accepted" if acc else "rejected", "must not" if acc else "must",
                                                        "the following %s(value) cast is undefined behaviour / wraps" % to if acc else
                                                        "as<%s>() returns 0 for a value that fits" % to))
            else:
                ctx.ob(rule, inst, True, fn.where, "accepted set = [%d, %d] on the %s grid%s; %d regions folded" %
                       (rout[0], rout[1], ti, ", NaN rejected" if tin.startswith("f") else "", len(pts)))
        except Unk as e:
            ctx.ob(rule, inst, None, fn.where, "predicate not foldable: %s" % e)
    ctx.floor(rule, "canConvertNumber instantiations", n, 60)

    # ---------------------------------------------------------------- R-CONVERT
    rule = "R-CONVERT"
    nc = 0
    for fn in sorted(prog.q("detail::convertNumber"), key=lambda f: f.key):
        nc += 1
        to, ti = targs_of(fn)
        pd = fn.params[0]["d"] if fn.params else None

        def is_guard(cond):
            c = fn.s(fn.strip(cond, casts=True))
            neg = False
            while c["k"] == "UnaryOperator" and c["op"] == "!":
                neg = not neg
                c = fn.s(fn.strip(c["c"][0], casts=True))
            if c["k"] in P.CALL_KINDS and c.get("callee", {}).get("q", "").endswith("canConvertNumber") and \
                    ("canConvertNumber<%s," % to) in c["callee"]["key"] and c.get("args") and \
                    fn.s(fn.strip(c["args"][0], casts=True)).get("ref", {}).get("d") == pd:
                return not neg      # polarity under which the guard holds
            return None

        def leaves(e, ctxs):
            """(leaf expression, [(cond, pol)...]) for the arms of nested conditional operators"""
            st = fn.s(fn.strip(e, casts=False))
            inner = fn.strip(e, casts=True)
            si = fn.s(inner)
            if si["k"] == "ConditionalOperator":
                return leaves(si["c"][1], ctxs + [(si["c"][0], True)]) + leaves(si["c"][2], ctxs + [(si["c"][0], False)])
            return [(e, ctxs)]
        sites = []
        for r in fn.walk():
            if fn.s(r)["k"] == "ReturnStmt" and fn.s(r)["c"]:
                for leaf, cx in leaves(fn.s(r)["c"][0], list(fn.guards_of(r))):
                    sites.append((leaf, cx))
        ok = bool(sites)
        ncast = 0
        why = ""
        for leaf, cx in sites:
            uses_value = any(fn.s(x)["k"] == "DeclRefExpr" and fn.s(x)["ref"]["d"] == pd for x in fn.walk(leaf))
            if uses_value:
                ncast += 1
                guarded = any(is_guard(c) is not None and is_guard(c) == pol for c, pol in cx)
                if not guarded:
                    ok = False
                    why = "the value is converted (%s) on a path where canConvertNumber<%s>(value) did not hold" % (fn.text(leaf)[:40], to)
            else:
                z = fn.const(leaf)
                sl = fn.s(fn.strip(leaf, casts=True))
                if not (z == 0 or sl.get("v") in ("0", 0) or (sl["k"] == "FloatingLiteral" and float(sl.get("v", 1)) == 0.0)):
                    ok = False
                    why = "returns %s instead of 0 when the value does not fit" % fn.text(leaf)[:40]
        if ok and ncast == 0:
            ok = False
            why = "no path returns the converted value"
        ctx.ob(rule, "convertNumber<%s>: cast under its own guard, 0 otherwise" % ",".join(fn.d.get("targs") or []), ok, fn.where,
               "%d return site(s): the converted value only under canConvertNumber<%s>(value), the literal 0 otherwise" % (len(sites), to)
               if ok else why, nontrivial=False)
    ctx.floor(rule, "convertNumber instantiations", nc, 40)
    # other floating -> integral conversions
    for fn in sorted(prog.fns.values(), key=lambda f: f.key):
        for i in fn.walk():
            st = fn.s(i)
            if st.get("ck") == "FloatingToIntegral":
                short = fn.short
                ok = any(short == k or short.endswith(k) for k in FP_EXCEPTIONS)
                ctx.ob(rule, "%s: floating->integer conversion is guarded" % short, ok, fn.loc(i),
                       "allowed: " + [v for k, v in FP_EXCEPTIONS.items() if short == k or short.endswith(k)][0] if ok else
                       "a floating value is converted to %s outside convertNumber and the frozen exceptions: undefined for out-of-range values" % st.get("t"),
                       nontrivial=False)

    # ---------------------------------------------------------------- R-SIBLING
    rule = "R-SIBLING"
    T = tags.tag_table(prog)
    int_tags = [t for t in ("Uint32", "Int32", "Uint64", "Int64") if t in T]
    flt_tags = [t for t in ("Float", "Double") if t in T]
    ns = 0

    def case_returns(fn):
        """tag -> return statements reachable with that tag (switch cases and
        if-chains on type_ alike)"""
        out = {}
        sw = tags.switch_constraints(fn, T)
        for e in fn.walk():
            if fn.s(e)["k"] == "ReturnStmt" and fn.s(e)["c"]:
                ts = tags.possible_tags_at(fn, e, T, prog, sw)
                if ts is None:
                    continue
                for t in ts:
                    out.setdefault(t, []).append(e)
        return out
    for fn in sorted(prog.q("VariantData::asIntegral"), key=lambda f: f.key):
        ns += 1
        Tt = (fn.d.get("targs") or ["?"])[0]
        cr = case_returns(fn)
        members = {}
        for t in int_tags + flt_tags:
            ok = False
            for e in cr.get(t, []):
                r = fn.s(fn.strip(fn.s(e)["c"][0], casts=True))
                if r["k"] in P.CALL_KINDS and r.get("callee", {}).get("q", "").endswith("convertNumber") and \
                        ("convertNumber<%s," % Tt) in r["callee"]["key"]:
                    a = fn.s(fn.strip(r["args"][0], casts=True))
                    if a["k"] == "MemberExpr":
                        members[t] = a["m"]
                        ok = True
            ctx.ob(rule, "asIntegral<%s>: %s goes through convertNumber<%s>" % (Tt, t, Tt), ok, fn.where,
                   "" if ok else "the %s case does not return convertNumber<%s>(member): out-of-range values wrap instead of becoming 0" % (t, Tt), nontrivial=False)
    for fn in sorted(prog.q("VariantData::isInteger"), key=lambda f: f.key):
        ns += 1
        Tt = (fn.d.get("targs") or ["?"])[0]
        cr = case_returns(fn)
        for t in int_tags:
            ok = False
            why = "no return for this tag"
            for e in cr.get(t, []):
                r = fn.s(fn.strip(fn.s(e)["c"][0], casts=True))
                if r["k"] in P.CALL_KINDS and r.get("callee", {}).get("q", "").endswith("canConvertNumber") and \
                        ("canConvertNumber<%s," % Tt) in r["callee"]["key"]:
                    a = fn.s(fn.strip(r["args"][0], casts=True))
                    ok = a["k"] == "MemberExpr"
                    # no guard other than the switch itself
                    # conditions that depend on the tag alone only select the case
                    extra = [c for c, p in fn.guards_of(e) if not tags.is_type_field(fn, c) and
                             any(tags.truth(fn, c, v_, prog) is None for v_ in T.values())]
                    if extra:
                        ok = False
                        why = "an additional condition (%s) decides the result" % fn.text(extra[0])
                else:
                    why = "returns %s instead of canConvertNumber<%s>(member)" % (fn.text(fn.s(e)["c"][0]), Tt)
            ctx.ob(rule, "isInteger<%s>: %s is exactly canConvertNumber<%s>(member)" % (Tt, t, Tt), ok, fn.where,
                   "" if ok else "is<%s>() for a stored %s: %s — it no longer holds exactly when the value fits" % (Tt, t, why), nontrivial=False)
    # strings: the text is parsed straight into the requested type
    nstr = 0
    for meth in ("VariantData::asIntegral", "VariantData::asFloat"):
        for fn in sorted(prog.q(meth), key=lambda f: f.key):
            Tt = (fn.d.get("targs") or ["?"])[0]
            cr = case_returns(fn)
            for t in ("LinkedString", "OwnedString"):
                if t not in T or not cr.get(t):
                    continue
                nstr += 1
                ok = False
                why = ""
                for e in cr.get(t, []):
                    r = fn.s(fn.strip(fn.s(e)["c"][0], casts=True))
                    if r["k"] in P.CALL_KINDS and r.get("callee", {}).get("q", "").endswith("parseNumber"):
                        ok = ("parseNumber<%s>" % Tt) in r["callee"]["key"]
                        if not ok:
                            why = "parsed as %s" % r["callee"]["key"].split("parseNumber<")[-1].split(">")[0]
                    else:
                        inner = [fn.s(x) for x in fn.walk(fn.s(e)["c"][0]) if fn.s(x)["k"] in P.CALL_KINDS and
                                 fn.s(x).get("callee", {}).get("q", "").endswith("parseNumber")]
                        why = ("converted from %s" % inner[0]["callee"]["key"].split("(")[0].split("::")[-1]) if inner else "does not go through parseNumber"
                ctx.ob(rule, "%s<%s>: a %s is parsed straight into %s" % (meth.split("::")[-1], Tt, t, Tt), ok, fn.where,
                       "" if ok else "%s and only then converted to %s: numeric strings outside that intermediate type (e.g. "
                       "\"18446744073709551615\" through a signed 64-bit integer) no longer convert by the rules of stored numbers" % (why, Tt),
                       nontrivial=False)
    ctx.floor(rule, "string cases of asIntegral/asFloat", nstr, 16)
    ctx.floor(rule, "asIntegral/isInteger instantiations", ns, 16)

    # ---------------------------------------------------------------- R-TAG
    tags.run(ctx, prog)

    # ---------------------------------------------------------------- R-COPYARR
    rule = "R-COPYARR"
    na = 0
    for fn in sorted(prog.q("ArduinoJson::copyArray"), key=lambda f: f.key):
        if len(fn.params) == 3 and fn.params[0]["t"].endswith("JsonArrayConst") and fn.params[2]["n"] == "len":
            na += 1
            for i in fn.walk():
                st = fn.s(i)
                if st["k"] == "ArraySubscriptExpr":
                    base = fn.s(fn.strip(st["c"][0], casts=True))
                    if base["k"] == "DeclRefExpr" and base["ref"]["n"] == "dst":
                        idx = None
                        for j in fn.walk(st["c"][1]):
                            if fn.s(j)["k"] == "DeclRefExpr":
                                idx = fn.s(j)["ref"]
                        ok = False
                        for cond, pol in fn.guards_of(i):
                            c = fn.s(fn.strip(cond, casts=True))
                            if c["k"] == "BinaryOperator" and c["op"] == "<" and pol is True:
                                a = fn.s(fn.strip(c["c"][0], casts=True))
                                b = fn.s(fn.strip(c["c"][1], casts=True))
                                if a.get("ref", {}).get("d") == (idx or {}).get("d") and b.get("ref", {}).get("n") == "len":
                                    ok = True
                        ctx.ob(rule, "copyArray(array, T*, len): dst[i++] only while i < len", ok, fn.loc(i),
                               "" if ok else "the store into dst is not dominated by i < len: writes beyond the destination", nontrivial=False)
        if len(fn.params) == 2 and fn.params[1]["t"].startswith("char (&)["):
            na += 1
            N = int(fn.params[1]["t"].split("[")[1].split("]")[0])
            it = absint.Interp(prog, emit=("memcpy",), pure_syms=("size",))
            paths = it.run(fn)
            ok = True
            why = ""
            for path in paths:
                for e in path.events:
                    if e[0] == "call" and e[1].endswith("memcpy"):
                        v = e[2][2][0]
                        r = (v[1], v[1]) if absint.is_c(v) else (path.rng(v[1])[0] + v[2], path.rng(v[1])[1] + v[2]) if absint.is_s(v) and len(v) == 3 else None
                        if r is None or r[1] > N - 1:
                            ok = False
                            why = "memcpy length can reach %s for a destination of %d bytes" % (r[1] if r else "?", N)
                    if e[0] == "store" and e[1] == "dst":
                        v = e[2]
                        r = (v[1], v[1]) if absint.is_c(v) else (path.rng(v[1])[0] + v[2], path.rng(v[1])[1] + v[2]) if absint.is_s(v) and len(v) == 3 else None
                        if r is None or r[1] > N - 1:
                            ok = False
                            why = "terminator index can reach %s in char[%d]" % (r[1] if r else "?", N)
            ctx.ob(rule, "copyArray(variant, char[N]): at most N-1 bytes and the terminator inside", ok, fn.where, why, nontrivial=True)
        if len(fn.params) == 2 and fn.params[0]["t"].endswith("JsonArrayConst") and "(&)[" in fn.params[1]["t"]:
            # forwards the deduced extent
            na += 1
            N = int(fn.params[1]["t"].split("(&)[")[1].split("]")[0])
            ok = False
            for i, st in fn.calls():
                if st["callee"]["q"].endswith("copyArray") and len(st.get("args", [])) == 3:
                    ok = fn.const(st["args"][2]) == N
            ctx.ob(rule, "copyArray(array, T(&)[N]) passes the deduced N", ok, fn.where, "" if ok else "length argument differs from the array extent", nontrivial=False)
    ctx.floor(rule, "copyArray extraction overloads", na, 4)
    for r_ in ("R-GUARD", "R-CONVERT", "R-SIBLING", "R-COPYARR"):
        ctx.doc(r_, [l.strip() for l in __doc__.split("\n") if l.startswith(r_)][0])
    ctx.doc("R-TAG", "union-tag discipline (see rules/tags.py)")
    from rules import accum
    accum.run(ctx, prog)
    accum.run_lockstep(ctx, prog)
    from rules import numparse
    numparse.r_expcut(ctx, prog)
    numparse.r_floatpath(ctx, prog)


def region_has_float(pt, ks, rout, tin):
    """Is there a TIn-representable value in the region that point pt stands
    for, on the side where oracle and predicate can differ?"""
    k, d = pt
    if d == 0:
        # the constant itself: representable iff rounding keeps it
        return f_round(k, tin) == k
    # open region next to k: up to the next constant / oracle bound
    allk = sorted(set(ks) | {Fraction(rout[0]), Fraction(rout[1])})
    if d > 0:
        nxt = [x for x in allk if x > k]
        hi = nxt[0] if nxt else None
        f = f_next(f_round(k, tin) if f_round(k, tin) <= k else f_next(f_round(k, tin), tin, False), tin, True)
        while f <= k:
            f = f_next(f, tin, True)
        return hi is None or f < hi
    nxt = [x for x in allk if x < k]
    lo = nxt[-1] if nxt else None
    f = f_round(k, tin)
    while f >= k:
        f = f_next(f, tin, False)
    return lo is None or f > lo
