"""C14 — how a string is stored is unobservable (structural clauses)."""
from rules import tags, nul


def run(ctx, prog):
    ctx.doc("R-TAG", tags.__doc__.strip().split("\n\n")[1])
    ctx.doc("R-NUL", nul.__doc__.strip().split("\n\n")[1])
    tags.run(ctx, prog)
    nul.run(ctx, prog)
