"""C14 — how a string is stored is unobservable (structural clauses)."""
from lib import prog as P
from rules import tags, nul

# string type given by the user -> adapter class that must be selected
ADAPTERS = {
    "const char *": "StaticStringAdapter",          # kept by address
    "char *": "ZeroTerminatedRamString",            # copied
    "const unsigned char *": "ZeroTerminatedRamString",
    "unsigned char *": "ZeroTerminatedRamString",
    "const signed char *": "ZeroTerminatedRamString",
    "const std::basic_string<char> &": "SizedRamString",
    "const std::basic_string_view<char> &": "SizedRamString",
    "const String &": "SizedRamString",
    "const __FlashStringHelper *": "FlashString",
    "const ArduinoJson::JsonString &": "JsonStringAdapter",
}
LINKED = {"ZeroTerminatedRamString": False, "SizedRamString": False, "FlashString": False,
          "StaticStringAdapter": True, "JsonStringAdapter": "flag"}


def streq(ctx, prog, rule="R-STREQ"):
    """'Equal' only after the sizes were compared: in stringEquals and
    JsonString::operator== every `return true` is dominated by a size test."""
    n = 0
    for fn in sorted(prog.fns.values(), key=lambda f: f.key):
        if not (fn.name == "stringEquals" or (fn.name == "operator==" and len(fn.params) == 2 and
                                               all((p.get("tr") or "").endswith("JsonString") for p in fn.params))):
            continue
        # forwarding overloads (swap operands) have no literal true
        for i in fn.walk():
            st = fn.s(i)
            if st["k"] != "ReturnStmt" or not st["c"]:
                continue
            r = fn.s(fn.strip(st["c"][0], casts=True))
            if r["k"] == "CXXBoolLiteralExpr" and r["v"] is False:
                continue
            if r["k"] in P.CALL_KINDS and r.get("callee", {}).get("q", "").split("::")[-1] in ("stringEquals", "operator=="):
                continue        # forwards to another equality, judged there
            literal_true = r["k"] == "CXXBoolLiteralExpr" and r["v"] is True
            if not literal_true and all((p_.get("tr") or p_["t"]).split("::")[-1].startswith("ZeroTerminated") for p_ in fn.params):
                continue        # two zero-terminated strings: strcmp compares the terminators, i.e. the lengths
            n += 1
            ok = False

            def is_size_cmp(e, want_eq):
                c_ = fn.s(fn.strip(e, casts=True))
                if c_["k"] != "BinaryOperator" or c_["op"] not in ("==", "!="):
                    return False
                ta, tb = (fn.text(fn.strip(x, casts=True)).lower() for x in c_["c"])
                sized = all(("size" in t or "length" in t or "strlen" in t) for t in (ta, tb))
                return sized and ((c_["op"] == "==") == want_eq)
            if not literal_true:
                # a computed result: one of its top-level conjuncts must be the size equality
                conj = [st["c"][0]]
                k_ = 0
                while k_ < len(conj):
                    ce = fn.s(fn.strip(conj[k_], casts=True))
                    if ce["k"] == "BinaryOperator" and ce["op"] == "&&":
                        conj.extend(ce["c"])
                    k_ += 1
                if any(is_size_cmp(e, True) for e in conj):
                    ok = True
            for cond, pol in fn.guards_of(i):
                c = fn.s(fn.strip(cond, casts=True))
                if c["k"] == "BinaryOperator" and c["op"] in ("!=", "=="):
                    txt = fn.text(fn.strip(cond, casts=True)).lower()
                    if "size" in txt and ((c["op"] == "!=" and not pol) or (c["op"] == "==" and pol)):
                        ok = True
            ctx.ob(rule, "%s: equal only if the sizes are equal" % fn.short, ok, fn.loc(i),
                   "" if ok else "a `true` result is reachable without comparing the two sizes: a string compares equal to a "
                   "longer one that starts at the same address / with the same bytes")
    ctx.floor(rule, "'return true' sites in string equality", n, 3)


def linkcopy(ctx, prog, rule="R-LINKCOPY"):
    n = 0
    for fn in sorted(prog.q("detail::adaptString"), key=lambda f: f.key):
        if len(fn.params) != 1:
            continue
        pt = fn.params[0]["t"]
        want = ADAPTERS.get(pt)
        if want is None:
            continue
        n += 1
        got = fn.d.get("retc", "").split("::")[-1].split("<")[0]
        ctx.ob(rule, "adaptString(%s) selects %s" % (pt.replace("ArduinoJson::", ""), want), got == want, fn.where,
               "" if got == want else "selects %s: the string would be %s instead of %s" %
               (got, "kept by address" if LINKED.get(got) is True else "copied", "kept by address" if LINKED.get(want) is True else "copied"), nontrivial=False)
    ctx.floor(rule, "adaptString overloads", n, 4)
    for fn in sorted(prog.fns.values(), key=lambda f: f.key):
        cls = fn.cls.split("::")[-1]
        if fn.name != "isLinked" or cls not in LINKED:
            continue
        rets = [j for j in fn.walk() if fn.s(j)["k"] == "ReturnStmt"]
        r = fn.s(fn.strip(fn.s(rets[0])["c"][0], casts=True)) if len(rets) == 1 else {}
        want = LINKED[cls]
        if want == "flag":
            ok = r.get("k") == "MemberExpr"
        else:
            ok = r.get("k") == "CXXBoolLiteralExpr" and r.get("v") is want
        ctx.ob(rule, "%s::isLinked() is %s" % (cls, "the source's flag" if want == "flag" else str(want).lower()), ok, fn.where,
               "" if ok else "a %s would be %s" % (cls, "stored by address although its buffer is not guaranteed to outlive the document"
                                                  if want is False else "copied"), nontrivial=False)
    # setLinkedString only under isLinked()
    for fn in sorted(prog.q("VariantData::setString"), key=lambda f: f.key):
        if fn.d.get("static"):
            continue
        for i, st in fn.calls():
            if st["callee"]["q"].endswith("VariantData::setLinkedString"):
                ok = any(pol and fn.s(fn.strip(c, casts=True))["k"] in P.CALL_KINDS and
                         fn.s(fn.strip(c, casts=True)).get("callee", {}).get("q", "").split("::")[-1] == "isLinked"
                         for c, pol in fn.guards_of(i))
                ctx.ob(rule, "setString links only what isLinked() admits", ok, fn.loc(i), "", nontrivial=False)
            if st["callee"]["q"].endswith("ResourceManager::saveString"):
                ok = not any(pol and fn.s(fn.strip(c, casts=True)).get("callee", {}).get("q", "").split("::")[-1] == "isLinked"
                             for c, pol in fn.guards_of(i))
                ctx.ob(rule, "setString copies everything else", ok, fn.loc(i), "", nontrivial=False)


def strkind(ctx, prog, rule="R-STRKIND"):
    """A switch on the stored kind treats the two string kinds alike: when
    one of LinkedString / OwnedString has a case of its own, so has the
    other (in every configuration) — a string kept by address must not fall
    into `default:` where its copied twin is converted, printed or compared."""
    T = tags.tag_table(prog)
    n = 0
    for fn in sorted(prog.fns.values(), key=lambda f: f.key):
        if fn.cfg is None or not fn.file.startswith(("Variant/", "Json/", "MsgPack/", "Object/", "Array/", "Document/", "Collection/")):
            continue
        for head, reach in tags.switch_constraints(fn, T):
            hb = fn.blocks()[head]
            own = {}
            for s_ in hb["succ"]:
                if s_ < 0:
                    continue
                lb = fn.blocks()[s_].get("label")
                if lb is not None and fn.s(lb)["k"] == "CaseStmt":
                    for nm, v in T.items():
                        if v == int(fn.s(lb)["lo"]):
                            own[nm] = s_
            if "LinkedString" not in own and "OwnedString" not in own:
                continue
            n += 1
            ok = "LinkedString" in own and "OwnedString" in own
            missing = "LinkedString" if "LinkedString" not in own else "OwnedString"
            ctx.ob(rule, "%s: both string kinds have a case" % fn.short, ok, fn.loc(hb["cond"]) if not ok else fn.where,
                   "" if ok else "%s has no case of its own here and falls into the default while the other string kind is handled: "
                   "a string %s behaves differently from the same text %s" %
                   (missing, "kept by address" if missing == "LinkedString" else "copied into the document",
                    "copied into the document" if missing == "LinkedString" else "kept by address"), nontrivial=False)
    ctx.floor(rule, "type switches that name a string kind", n, 4)
    ctx.doc(rule, strkind.__doc__.strip().replace("\n", " "))


def run(ctx, prog):
    ctx.doc("R-TAG", tags.__doc__.strip().split("\n\n")[1])
    ctx.doc("R-NUL", nul.__doc__.strip().split("\n\n")[1])
    ctx.doc("R-STREQ", "string equality returns true only after comparing the sizes")
    ctx.doc("R-LINKCOPY", "which string kinds are kept by address and which are copied: adapter selection per type and isLinked() table")
    tags.run(ctx, prog)
    nul.run(ctx, prog)
    streq(ctx, prog)
    linkcopy(ctx, prog)
    strkind(ctx, prog)
    from rules import c04
    c04.keyval(ctx, prog)
    c04.pool_match(ctx, prog)
