"""C15 — the nesting limit bounds recursion for every input.

R-METER   every call cycle among deserializer functions strictly decreases the
          NestingLimit: (a) each call passes the caller's own limit parameter
          unchanged or param.decrement(); (b) every decrement() call is
          dominated by the false edge of `param.reached()` whose true edge
          returns TooDeep; (c) the sub-graph of 'unchanged' edges is acyclic
          (every cycle contains a decrement edge); (d) the NestingLimit class
          is the expected counter (uint8_t, reached() == (value_==0),
          decrement() builds value_-1); (e) no VLA/alloca in the cycle.
          => recursion depth <= (L+1)*|SCC| frames for every input.
R-NOOTHER any other call cycle reachable from parse() consumes no input
          (document walkers such as clear()), so its depth is bounded by the
          depth of an already bounded document, not by the input.
R-TOODEEP the enumerator TooDeep is returned only by those guards, and each
          guard precedes the first read of its function.
"""
from lib import prog as P


def tarjan(nodes, succ):
    index = {}
    low = {}
    onstack = set()
    stack = []
    out = []
    counter = [0]
    for root in nodes:
        if root in index:
            continue
        work = [(root, iter(succ(root)))]
        index[root] = low[root] = counter[0]
        counter[0] += 1
        stack.append(root)
        onstack.add(root)
        while work:
            v, it = work[-1]
            adv = False
            for w in it:
                if w not in index:
                    index[w] = low[w] = counter[0]
                    counter[0] += 1
                    stack.append(w)
                    onstack.add(w)
                    work.append((w, iter(succ(w))))
                    adv = True
                    break
                elif w in onstack:
                    low[v] = min(low[v], index[w])
            if adv:
                continue
            work.pop()
            if work:
                u = work[-1][0]
                low[u] = min(low[u], low[v])
            if low[v] == index[v]:
                comp = []
                while True:
                    w = stack.pop()
                    onstack.discard(w)
                    comp.append(w)
                    if w == v:
                        break
                out.append(comp)
    return out


def limit_param(fn):
    for p in fn.params:
        if (p.get("tr") or "").endswith("NestingLimit"):
            return p
    return None


def classify_limit_arg(fn, arg, lp):
    """'same' | 'dec' | 'other:<text>' for the expression passed as limit."""
    i = fn.strip(arg, casts=True)
    st = fn.s(i)
    # copy construction of the by-value parameter
    hops = 0
    while st["k"] in ("CXXConstructExpr",) and st.get("args") and len(st["args"]) == 1 and hops < 4:
        i = fn.strip(st["args"][0], casts=True)
        st = fn.s(i)
        hops += 1
    if st["k"] == "DeclRefExpr" and lp is not None and st["ref"]["d"] == lp["d"]:
        return "same"
    if st["k"] == "CXXMemberCallExpr" and st.get("callee", {}).get("q", "").endswith("NestingLimit::decrement"):
        o = fn.s(fn.strip(st["obj"], casts=True))
        if o["k"] == "DeclRefExpr" and lp is not None and o["ref"]["d"] == lp["d"]:
            return "dec"
        return "other:decrement() of something else: " + fn.text(arg)
    return "other:" + fn.text(arg)


def is_reached_of(fn, cond, lp):
    """cond is `<limit param>.reached()` -> True ; `!x.reached()` -> 'neg'"""
    i = fn.strip(cond, casts=True)
    st = fn.s(i)
    neg = False
    while st["k"] == "UnaryOperator" and st["op"] == "!":
        neg = not neg
        i = fn.strip(st["c"][0], casts=True)
        st = fn.s(i)
    if st["k"] == "CXXMemberCallExpr" and st.get("callee", {}).get("q", "").endswith("NestingLimit::reached"):
        o = fn.s(fn.strip(st["obj"], casts=True))
        if o["k"] == "DeclRefExpr" and o["ref"]["d"] == lp["d"]:
            return "neg" if neg else True
    return False


def returns_enumerator(fn, block_id, name):
    """Does the block (straight line) end in `return <enumerator name>`?"""
    b = fn.blocks()[block_id]
    for e in b["el"]:
        if isinstance(e, int):
            st = fn.s(e)
            if st["k"] == "ReturnStmt":
                for j in fn.walk(e):
                    s2 = fn.s(j)
                    if s2["k"] == "DeclRefExpr" and s2["ref"]["k"] == "enumerator":
                        return s2["ref"]["n"] == name
                return False
    return False


def reads_input(prog, fn):
    for i, st in fn.calls():
        q = st["callee"]["q"]
        if "Reader" in q and q.split("::")[-1] in ("read", "readBytes"):
            return True
        if "::Latch::" in q or q.endswith("Deserializer::readByte") or q.endswith("Deserializer::readBytes"):
            return True
    return False


def run(ctx, prog):
    cg, ext = prog.callgraph()
    roots = [f for f in prog.fns.values()
             if f.name == "parse" and f.cls.endswith("Deserializer")]
    ctx.floor("R-METER", "parse() instantiations", len(roots), 8)
    reach = prog.reachable([r.key for r in roots])
    sccs = tarjan(sorted(reach), lambda k: sorted(c for c in cg.get(k, ()) if c in reach))
    cyc = []
    for comp in sccs:
        if len(comp) > 1 or comp[0] in cg.get(comp[0], ()):
            cyc.append(comp)
    ctx.count("R-METER:reachable_functions", len(reach))
    ctx.count("R-METER:cyclic_sccs", len(cyc))
    n_deser_scc = 0
    guards_seen = set()
    for comp in cyc:
        cset = set(comp)
        fns = [prog.fns[k] for k in sorted(comp)]
        is_deser = any(f.cls.endswith("Deserializer") or limit_param(f) for f in fns)
        names = sorted(set(f.short for f in fns))
        label = "{" + ",".join(names) + "}"
        if not is_deser:
            # R-NOOTHER
            bad = [f for f in fns if reads_input(prog, f)]
            ctx.ob("R-NOOTHER", label, not bad, fns[0].where,
                   "call cycle without a NestingLimit: " +
                   ("consumes input in %s: recursion depth driven by the input" % bad[0].short
                    if bad else "document walker, reads no input"))
            continue
        n_deser_scc += 1
        same_edges = {}
        for f in fns:
            lp = limit_param(f)
            has_dec = []
            for i, st in f.calls():
                ck = st["callee"]["key"]
                if ck not in cset:
                    continue
                callee = prog.fns[ck]
                clp = limit_param(callee)
                inst = "%s -> %s" % (f.short, callee.short)
                if lp is None or clp is None:
                    ctx.ob("R-METER", inst + ": limit passed", False, f.loc(i),
                           "recursive call between functions without a NestingLimit parameter: unmetered recursion")
                    same_edges.setdefault(f.key, set()).add(ck)
                    continue
                idx = [p["d"] for p in callee.params].index(clp["d"])
                args = st.get("args", [])
                # member call args exclude the object; operator calls include it
                if idx >= len(args):
                    ctx.ob("R-METER", inst + ": limit passed", None, f.loc(i), "cannot locate the limit argument")
                    continue
                kind = classify_limit_arg(f, args[idx], lp)
                if kind == "same":
                    same_edges.setdefault(f.key, set()).add(ck)
                    ctx.ob("R-METER", inst + ": limit passed", True, f.loc(i), "caller's own limit, unchanged")
                elif kind == "dec":
                    has_dec.append(i)
                    ctx.ob("R-METER", inst + ": limit passed", True, f.loc(i), "limit.decrement()")
                else:
                    ctx.ob("R-METER", inst + ": limit passed", False, f.loc(i),
                           "limit argument is neither the caller's limit nor its decrement(): %s" % kind[6:])
                    same_edges.setdefault(f.key, set()).add(ck)
            # (b) guard dominance for every decrement call — also the ones
            # leaving the SCC do no harm but are checked for wrap-around
            for i, st in f.calls():
                if not st["callee"]["q"].endswith("NestingLimit::decrement"):
                    continue
                if lp is None:
                    continue
                ok = False
                for cond, pol in f.guards_of(i):
                    r = is_reached_of(f, cond, lp)
                    if (r is True and pol is False) or (r == "neg" and pol is True):
                        # the other edge must return TooDeep
                        for b, c2, succ in f.branch_conditions():
                            if c2 == cond:
                                other = succ[0] if pol is False else succ[1]
                                if returns_enumerator(f, other, "TooDeep"):
                                    ok = True
                                    guards_seen.add(f.short)
                ctx.ob("R-METER", "%s: decrement() guarded by reached()" % f.short, ok, f.loc(i),
                       "dominated by the not-reached edge of %s.reached(), whose other edge returns TooDeep" % lp["n"]
                       if ok else "decrement() not dominated by a reached() test returning TooDeep: "
                                  "the limit can wrap below zero / recursion is not cut")
            # (e) VLAs
            for i in f.walk():
                st = f.s(i)
                if st["k"] == "DeclStmt":
                    for d in st["decls"]:
                        if d.get("vla"):
                            ctx.ob("R-METER", "%s: fixed frame" % f.short, False, f.loc(i), "variable length array in a recursive function")
                if st["k"] in P.CALL_KINDS and st.get("callee", {}).get("q", "") in ("alloca", "__builtin_alloca"):
                    ctx.ob("R-METER", "%s: fixed frame" % f.short, False, f.loc(i), "alloca in a recursive function")
        # (c) 'same' edges acyclic
        sub = tarjan(sorted(cset), lambda k: sorted(same_edges.get(k, ())))
        badc = [c for c in sub if len(c) > 1 or c[0] in same_edges.get(c[0], ())]
        ctx.ob("R-METER", label + ": every cycle decrements", not badc, fns[0].where,
               "cycle through %s passes the limit unchanged" %
               " -> ".join(prog.fns[k].short for k in badc[0]) if badc
               else "removing decrement edges leaves the %d-function SCC acyclic" % len(comp))
    ctx.floor("R-METER", "deserializer SCCs", n_deser_scc, 2)

    # limit plumbing outside the SCCs: every function with a NestingLimit
    # parameter reachable from parse passes only its own limit (or decrement)
    nplumb = 0
    for k in sorted(reach):
        f = prog.fns[k]
        lp = limit_param(f)
        if lp is None:
            continue
        for i, st in f.calls():
            ck = st["callee"]["key"]
            if ck not in prog.fns:
                continue
            callee = prog.fns[ck]
            clp = limit_param(callee)
            if clp is None or callee.cls.endswith("NestingLimit"):
                continue
            idx = [p["d"] for p in callee.params].index(clp["d"])
            args = st.get("args", [])
            if idx >= len(args):
                continue
            kind = classify_limit_arg(f, args[idx], lp)
            nplumb += 1
            # depth accounting: a function that opens a container (it tests
            # reached() on its limit) hands limit.decrement() to the values
            # it contains; a value-level function hands its limit on unchanged
            opens = any(is_reached_of(f, c, lp) for _b, c, _s in f.branch_conditions())
            if kind in ("same", "dec"):
                want = "dec" if opens else "same"
                ctx.ob("R-TOODEEP", "%s -> %s: depth accounting" % (f.short, callee.short),
                       kind == want, f.loc(i),
                       ("container routine passes limit.decrement() to its children" if opens
                        else "value-level routine passes its limit unchanged") if kind == want else
                       ("container routine passes its limit undecremented to %s: nested containers are "
                        "counted one level too shallow, TooDeep comes one level late" % callee.short if opens
                        else "value-level routine decrements the limit: TooDeep comes one level early"))
            if kind.startswith("other"):
                ctx.ob("R-METER", "%s -> %s: limit source" % (f.short, callee.short), False, f.loc(i),
                       "a fresh or foreign limit is passed: %s" % kind[6:])
    ctx.count("R-METER:limit_call_sites", nplumb)
    # no NestingLimit constructed inside deserializer code
    for k in sorted(reach):
        f = prog.fns[k]
        if not f.cls.endswith("Deserializer"):
            continue
        for i, st in f.calls():
            if st["k"] in ("CXXConstructExpr", "CXXTemporaryObjectExpr") and \
                    st["callee"]["q"].endswith("NestingLimit::NestingLimit"):
                a = st.get("args", [])
                if len(a) == 1 and fn_is_copy(f, a[0]):
                    continue
                ctx.ob("R-METER", "%s: constructs a NestingLimit" % f.short, False, f.loc(i),
                       "a new limit is created inside the deserializer: %s" % f.text(i))

    # (d) class facts
    for f in prog.q("NestingLimit::reached"):
        ok = False
        for i in f.walk():
            st = f.s(i)
            if st["k"] == "ReturnStmt":
                e = f.s(f.strip(st["c"][0], casts=True))
                if e["k"] == "BinaryOperator" and e["op"] == "==":
                    a, b = [f.s(f.strip(c, casts=True)) for c in e["c"]]
                    if {a["k"], b["k"]} == {"MemberExpr", "IntegerLiteral"}:
                        lit = a if a["k"] == "IntegerLiteral" else b
                        mem = a if a["k"] == "MemberExpr" else b
                        ok = lit.get("v") == "0" and mem["m"] == "value_"
        ctx.ob("R-METER", "NestingLimit::reached() is value_ == 0", ok, f.where,
               "" if ok else "reached() is not the test value_ == 0: " + f.text(f.d["body"]))
    for f in prog.q("NestingLimit::decrement"):
        ok = False
        for i in f.walk():
            st = f.s(i)
            if st["k"] == "BinaryOperator" and st["op"] == "-":
                a, b = [f.s(f.strip(c, casts=True)) for c in st["c"]]
                if a["k"] == "MemberExpr" and a["m"] == "value_" and b.get("cv") == "1":
                    # must be the constructor argument of the returned object
                    ok = any(f.s(x)["k"] == "ReturnStmt" for x in f.ancestors(i))
        ctx.ob("R-METER", "NestingLimit::decrement() builds value_ - 1", ok, f.where,
               "" if ok else "decrement() does not return a limit built from value_ - 1")
    recs = prog.record("DeserializationOption::NestingLimit")
    okf = bool(recs) and all(len(r["fields"]) == 1 and r["fields"][0]["tk"] == "u8" for r in recs)
    ctx.ob("R-METER", "NestingLimit holds one uint8_t", okf, recs[0]["file"] and "%s:%d" % (P.relfile(recs[0]["file"]), recs[0]["line"]) if recs else "",
           "single field of type uint8_t: limits 0..255, strictly decreasing measure" if okf else "NestingLimit's representation changed")
    ctx.floor("R-METER", "NestingLimit methods", len(prog.q("NestingLimit::reached")) + len(prog.q("NestingLimit::decrement")), 2)

    # ---- R-TOODEEP: who may return TooDeep
    nret = 0
    for f in prog.fns.values():
        for i in f.walk():
            st = f.s(i)
            if st["k"] == "DeclRefExpr" and st["ref"]["k"] == "enumerator" and st["ref"]["n"] == "TooDeep":
                if f.cls.endswith("DeserializationError") or f.name.startswith("operator"):
                    continue
                nret += 1
                lp = limit_param(f)
                ok = False
                if lp is not None:
                    for cond, pol in f.guards_of(i):
                        r = is_reached_of(f, cond, lp)
                        if (r is True and pol is True) or (r == "neg" and pol is False):
                            ok = True
                ctx.ob("R-TOODEEP", "%s: TooDeep only under reached()" % f.short, ok, f.loc(i),
                       "returned on the reached() edge of the function's own limit" if ok
                       else "TooDeep produced outside a reached() guard")
                # guard precedes the first read
                if ok:
                    rb = f.block_of(i)
                    first_reads = []
                    for j, sj in f.calls():
                        q = sj["callee"]["q"]
                        if q.endswith(("Deserializer::move", "Deserializer::current", "Deserializer::readByte",
                                       "Deserializer::readBytes", "Deserializer::eat", "Deserializer::skipBytes",
                                       "Deserializer::skipSpacesAndComments", "Deserializer::readKey")):
                            first_reads.append(j)
                    # every read must be dominated by the not-reached edge
                    bad = None
                    for j in first_reads:
                        g = [(c, p) for c, p in f.guards_of(j) if is_reached_of(f, c, lp)]
                        if not g:
                            bad = j
                            break
                    ctx.ob("R-TOODEEP", "%s: guard before first read" % f.short, bad is None,
                           f.loc(bad) if bad is not None else f.loc(i),
                           "all %d read(s) of the function are dominated by the not-reached edge" % len(first_reads)
                           if bad is None else "input is consumed before the limit is tested: %s" % f.text(bad))
    ctx.floor("R-TOODEEP", "TooDeep return sites", nret, 6)
    for must in ("JsonDeserializer::parseArray", "JsonDeserializer::parseObject",
                 "JsonDeserializer::skipArray", "JsonDeserializer::skipObject",
                 "MsgPackDeserializer::readArray", "MsgPackDeserializer::readObject"):
        if must not in guards_seen:
            ctx.ob("R-METER", "%s: is a guarded function" % must, False,
                   (prog.q(must)[0].where if prog.q(must) else ""),
                   "container routine has no reached()/TooDeep guard around its recursive calls"
                   if prog.q(must) else "function not found")
        else:
            ctx.ob("R-METER", "%s: is a guarded function" % must, True, prog.q(must)[0].where, "")


def fn_is_copy(f, a):
    st = f.s(f.strip(a, casts=True))
    return (st.get("tr") or "").endswith("NestingLimit")
