"""C16 — one call consumes one document from a stream (structural clauses).

R-CONSUME  (JSON) latch class at every Ok exit, from the latch typestate
           analysis (rules/latch.py): arrays, objects, strings and keywords
           return with nothing loaded beyond their last character; only the
           numeric routines return with one look-ahead character; the reader
           is called from Latch::load only, once per load.
R-NOSTATE  (MessagePack) the deserializer keeps no look-ahead state: its
           fields are the frozen set (resources, reader, string buffer, the
           found-something flag); every read requests bytes of the current
           object (R-DISPATCH of C09).
R-READER   reader sibling table: every Reader<...>::read() returns the byte as
           an unsigned 8-bit value (or the source's own read()/get()), so
           bytes >= 0x80 never look like end of input, whatever the chunking.
"""
from lib import prog as P
from rules import latch


SIZED_SOURCES = ("String", "std::basic_string", "basic_string_view", "std::string")


def r_readerkind(ctx, prog, rule="R-READER"):
    """An input that knows its length is read through a bounded reader: the
    Reader<> specialisation for String, std::string and string_view derives
    from BoundedReader / IteratorReader (pointer + end), never from the
    zero-terminated pointer reader — a length-delimited MessagePack document
    may contain NUL bytes and may stop before any NUL."""
    n = 0
    for r in sorted(prog.records, key=lambda r: r.get("full", "")):
        full = r.get("full", "")
        if r.get("dependent") or not full.startswith("ArduinoJson::detail::Reader<"):
            continue
        arg = full[len("ArduinoJson::detail::Reader<"):]
        if not any(arg.replace("const ", "").startswith(x) or arg.replace("const ", "").startswith(x.replace("std::", "")) for x in SIZED_SOURCES):
            continue
        n += 1
        bases = [b if isinstance(b, str) else b.get("q", "") for b in r.get("bases", [])]
        fields = [f["n"] for f in r.get("fields", [])]
        bounded = any(b.split("<")[0].split("::")[-1] in ("BoundedReader", "IteratorReader") for b in bases) or \
            ("end_" in fields and "ptr_" in fields)
        ctx.ob(rule, "%s reads within the length of its source" % full.replace("ArduinoJson::detail::", ""), bounded,
               "%s:%s" % (P.relfile(r["file"]), r.get("line", 0)),
               "derives from %s" % bases if bounded else
               "the reader of a sized string derives from %s: it stops at the first NUL instead of at length(): a truncated or hostile "
               "MessagePack document in such a string is read past its end" % (bases or "nothing (own unbounded pointer)"), nontrivial=False)
    ctx.count(rule + ":sized_source_readers", n)


def r_reader(ctx, prog, rule="R-READER"):
    n = 0
    for fn in sorted(prog.fns.values(), key=lambda f: f.key):
        cls = fn.cls.split("::")[-1]
        if fn.name != "read" or not (cls.endswith("Reader") or cls == "Reader"):
            continue
        if fn.params:
            continue
        n += 1
        full = fn.d.get("clsfull", cls).replace("ArduinoJson::detail::", "")
        rets = [j for j in fn.walk() if fn.s(j)["k"] == "ReturnStmt" and fn.s(j)["c"]]
        bad = None
        for j in rets:
            e = fn.s(j)["c"][0]
            ok = False
            # walk through implicit conversions to int
            cur = e
            while True:
                st = fn.s(cur)
                if st["k"] in ("ImplicitCastExpr", "ParenExpr", "ExprWithCleanups", "MaterializeTemporaryExpr"):
                    if st.get("ck") == "IntegralCast" and st.get("fromk") in ("u8", "bool"):
                        ok = True
                        break
                    if st.get("ck") == "IntegralCast" and st.get("fromk") in ("s8",):
                        break
                    ch = [c for c in st["c"] if c is not None and c >= 0]
                    if not ch:
                        break
                    cur = ch[0]
                    continue
                break
            st = fn.s(fn.strip(e, casts=False))
            s2 = fn.s(fn.strip(e, casts=True))
            if not ok:
                if s2.get("cv") == "-1" or (s2["k"] == "UnaryOperator" and s2["op"] == "-"):
                    ok = True     # the end marker
                elif s2["k"] in P.CALL_KINDS and s2.get("callee", {}).get("q", "").split("::")[-1] in ("read", "get", "pgm_read_byte"):
                    ok = s2.get("tk") in ("s32", "u8")   # int-returning source read / uint8_t flash read
                elif s2["k"] == "ConditionalOperator":
                    arms = [fn.s(fn.strip(x, casts=False)) for x in s2["c"][1:]]
                    ok = all((a.get("cv") == "-1") or a.get("tk") in ("u8",) or
                             (a["k"] in ("ImplicitCastExpr",) and a.get("fromk") == "u8") or
                             any(fn.s(y).get("tk") == "u8" and fn.s(y)["k"] in P.EXPLICIT_CASTS for y in fn.walk(x))
                             for a, x in zip(arms, s2["c"][1:]))
                elif s2["k"] == "DeclRefExpr" and s2.get("tk") == "s32":
                    ok = True     # an int obtained from the source's read()
                elif any(fn.s(y)["k"] in P.EXPLICIT_CASTS and fn.s(y).get("tk") == "u8" for y in fn.walk(e)):
                    ok = True
            if not ok:
                bad = j
        ctx.ob(rule, "%s::read() yields bytes as unsigned values" % full[:70], bad is None, fn.where if bad is None else fn.loc(bad),
               "" if bad is None else "a data byte is returned through a signed char: bytes >= 0x80 become negative and are taken for the "
               "end of input: %s" % fn.text(bad))
    ctx.floor(rule, "Reader::read() specialisations", n, 4)


def run(ctx, prog):
    from rules import rawio
    rawio.run(ctx, prog, writers=False)
    from rules import scan
    scan.run(ctx, prog)
    latch.run(ctx, prog, want_c16=True)
    rule = "R-NOSTATE"
    recs = [r for r in prog.records if r["q"].endswith("MsgPackDeserializer") and not r["dependent"]]
    ok = bool(recs)
    for r in recs[:1]:
        names = sorted(f["n"] for f in r["fields"])
        ok = names == ["foundSomething_", "reader_", "resources_", "stringBuffer_"]
        ctx.ob(rule, "MsgPackDeserializer has no look-ahead field", ok, P.relfile(r["file"]), str(names))
    # the reader is called only through Latch::load in the JSON parser
    n = 0
    for fn in sorted(prog.fns.values(), key=lambda f: f.key):
        if not (fn.cls.endswith("JsonDeserializer") or fn.cls.endswith("Latch")):
            continue
        for i, st in fn.calls():
            q = st["callee"]["q"]
            if "Reader" in q and q.split("::")[-1] in ("read", "readBytes"):
                n += 1
                okc = fn.cls.endswith("Latch") and fn.name == "load"
                ctx.ob("R-CONSUME", "%s is the only JSON routine calling the reader" % fn.short, okc, fn.loc(i), "", nontrivial=False)
    ctx.floor("R-CONSUME", "reader calls on the JSON side", n, 1)
    for fn in prog.q("Latch::load")[:1]:
        nreads = sum(1 for i, st in fn.calls() if "Reader" in st["callee"]["q"] and st["callee"]["q"].split("::")[-1] == "read")
        ctx.ob("R-CONSUME", "Latch::load reads exactly one byte", nreads == 1, fn.where, "%d read() call(s)" % nreads)
    for fn in prog.q("Latch::current")[:1]:
        ok = False
        for i, st in fn.calls():
            if st["callee"]["q"].endswith("Latch::load"):
                for cond, pol in fn.guards_of(i):
                    c = fn.s(fn.strip(cond, casts=True))
                    if c["k"] == "MemberExpr" and c["m"] == "loaded_" and pol is False:
                        ok = True
                    if c["k"] == "UnaryOperator":
                        ok = ok or "loaded_" in fn.text(cond)
        ctx.ob("R-CONSUME", "Latch::current loads only when nothing is loaded", ok, fn.where, "")
    r_reader(ctx, prog)
    r_readerkind(ctx, prog)
    ctx.doc("R-NOSTATE", "the MessagePack deserializer has no field that could cache input bytes")
    ctx.doc("R-READER", "Reader::read() returns data bytes as unsigned 8-bit values")
