"""C17 — escaping is the inverse of unescaping (table clause only).

R-ESC   the single escape table literal of EscapeSequence is split into
        (letter, byte) pairs; offsets are pair-aligned and inside the literal;
        the pairs are a bijection; the serializing suffix is exactly RFC 8259's
        set {" \\ b f n r t}; the parsing table is that set plus '/' and the
        documented single quote.  escapeChar scans pairs with stride 2
        comparing the byte and returning the letter, unescapeChar the
        converse; TextFormatter::writeChar writes '\\' + letter for a hit,
        the literal \\u0000 for NUL and the byte itself otherwise.
R-HEX / R-UTF8 / R-UESCAPE (rules/unicode.py): hex digits, the UTF-8 encoder
and surrogate recombination, decided for every code unit and every pair by
partitioned affine abstract interpretation.
"""
from lib import prog as P

RFC = {ord('"'): ord('"'), ord('\\'): ord('\\'), ord('b'): 8, ord('f'): 12, ord('n'): 10, ord('r'): 13, ord('t'): 9}
PARSE_EXTRA = {ord('/'): ord('/'), ord("'"): ord("'")}


def run(ctx, prog):
    from rules import unicode
    unicode.run(ctx, prog)
    escape_rules(ctx, prog)


def escape_rules(ctx, prog):
    rule = "R-ESC"
    tables = {}
    fns = prog.q("EscapeSequence::escapeTable")
    ctx.floor(rule, "escapeTable", len(fns), 1)
    for fn in fns[:1]:
        lit = None
        offs = None
        for i in fn.walk():
            st = fn.s(i)
            if st["k"] == "StringLiteral":
                lit = st.get("bytes")
            if st["k"] == "ConditionalOperator":
                c = fn.s(fn.strip(st["c"][0], casts=True))
                if c["k"] == "DeclRefExpr" and c["ref"]["k"] == "parm":
                    offs = (fn.const(st["c"][1]), fn.const(st["c"][2]))
        if lit is None or offs is None or None in offs:
            ctx.ob(rule, "escape table is one literal indexed by a constant offset", None, fn.where, "shape not recognised")
            return
        ser_off, par_off = offs

        def pairs(off):
            out = {}
            dup = False
            j = off
            while j + 1 < len(lit) and lit[j] != 0:
                if lit[j] in out:
                    dup = True
                out[lit[j]] = lit[j + 1]
                j += 2
            return out, dup, j
        ok_al = ser_off % 2 == 0 and par_off % 2 == 0 and ser_off <= len(lit) and par_off <= len(lit) and len(lit) % 2 == 0
        ctx.ob(rule, "table offsets are pair-aligned and inside the literal", ok_al, fn.where,
               "literal of %d bytes, offsets %d (serialize) / %d (parse)" % (len(lit), ser_off, par_off))
        ser, dup1, _ = pairs(ser_off)
        par, dup2, _ = pairs(par_off)
        tables["ser"], tables["par"] = ser, par
        bij = not dup1 and not dup2 and len(set(par.values())) == len(par)
        ctx.ob(rule, "escape pairs are a bijection", bij, fn.where, "%d pairs" % len(par))
        ctx.ob(rule, "serializing table is exactly RFC 8259's escape set", ser == RFC, fn.where,
               "{%s}" % ",".join("%s->%02x" % (chr(k), v) for k, v in sorted(ser.items())) if ser == RFC else
               "serializing pairs %s differ from RFC 8259 %s: a byte is escaped that must not be, or an escape is missing" %
               (sorted((chr(k), v) for k, v in ser.items()), sorted((chr(k), v) for k, v in RFC.items())))
        want = dict(RFC)
        want.update(PARSE_EXTRA)
        ctx.ob(rule, "parsing table is RFC 8259's set plus '/' and the single quote", par == want, fn.where,
               "" if par == want else "parsing pairs %s" % sorted((chr(k), v) for k, v in par.items()))
        ctx.ob(rule, "both directions read the same literal", all(ser.get(k) == par.get(k) for k in ser), fn.where, "")
    # the two scan loops and writeChar, evaluated for every character (lib/pieces.py)
    if tables.get("ser") is not None:
        semantic(ctx, prog, rule, tables["ser"], tables["par"])
    ctx.floor(rule, "writeChar", len(prog.q("TextFormatter::writeChar")), 1)
    ctx.doc(rule, "shared escape table vs RFC 8259; scan loops; NUL literal")


def semantic(ctx, prog, rule, ser, par):
    """escapeChar / unescapeChar / writeChar for every value of their
    parameter, by partitioned abstract interpretation: the result is the
    table's (whatever the shape of the scan loop), nothing is read beyond the
    table literal."""
    from lib import pieces
    from lib.pieces import Aff

    def s8(v):
        return v - 256 if v > 127 else v

    def evaluate(fn, hooks=None):
        tk = fn.params[0].get("tk", "s8")
        dom0 = pieces.type_range(tk)

        def body(box):
            m = pieces.Machine(prog, box, hooks=hooks or {}, max_unroll=64)
            m.fields = {}
            fr = pieces.Machine.Frame(fn)
            fr.env[fn.params[0]["d"]] = Aff.sym("c")
            try:
                r = m.run_fn(fr)
            except pieces.Hazard as h:
                return ("hazard", str(h), None)
            return ("ok", r, list(m.out))
        return list(pieces.cover({"c": dom0}, body))
    # serializing: byte -> letter ; parsing: letter -> byte
    ser_rev = {s8(v): k for k, v in ser.items()}
    for name, table in (("EscapeSequence::escapeChar", ser_rev), ("EscapeSequence::unescapeChar", {s8(k): s8(v) for k, v in par.items()})):
        for fn in sorted(prog.q(name), key=lambda f: f.key)[:1]:
            bad = []
            try:
                res = evaluate(fn)
            except pieces.Unsupported as ex:
                ctx.ob(rule, "%s returns the table's answer for every character" % name.split("::")[-1], None, fn.where, str(ex))
                continue
            for box, (tag, r, out) in res:
                lo, hi = box["c"]
                if tag == "hazard":
                    bad.append("for c = %d: %s" % (lo, r))
                    continue
                for c in ([lo] if lo == hi else [lo, hi]):
                    want = table.get(c, 0)
                    got = r.at({"c": c}) if r is not None else None
                    if got is None or (got - want) % 256:
                        bad.append("%s(%r) = %s, the table says %r" % (name.split("::")[-1], chr(c % 256), got, want))
                if lo != hi and (not r.is_const() or any(lo <= k <= hi for k in table)):
                    bad.append("result is not constant on [%d, %d]" % (lo, hi))
            ctx.ob(rule, "%s returns the table's answer for every character" % name.split("::")[-1], not bad, fn.where,
                   "%d pieces cover the parameter type" % len(res) if not bad else "; ".join(bad[:3]))
        ctx.floor(rule, name.split("::")[-1], len(prog.q(name)), 1)
    # writeChar: '\\' + letter for a table byte, the literal \u0000 for NUL, the byte itself otherwise
    for fn in sorted(prog.q("TextFormatter::writeChar"), key=lambda f: f.key)[:1]:
        def hook_raw(m, fr, i, st):
            v = m.ev(fr, st["args"][0])
            if isinstance(v, pieces.Ptr):
                k = 0
                while True:
                    cell = m.load(fr, ("cell", v.arr, v.idx + k), fr.fn.loc(i))
                    if cell.is_const() and cell.c == 0:
                        break
                    m.out.append(cell)
                    k += 1
                    if k > 16:
                        raise pieces.Hazard("unterminated literal")
            else:
                m.out.append(m.as_aff(v))
            return None
        bad = []
        try:
            res = evaluate(fn, hooks={"writeRaw": hook_raw})
        except pieces.Unsupported as ex:
            ctx.ob(rule, "writeChar escapes exactly the table's bytes and NUL", None, fn.where, str(ex))
            continue
        for box, (tag, r, out) in res:
            lo, hi = box["c"]
            if tag == "hazard":
                bad.append("for c = %d: %s" % (lo, r))
                continue
            for c in ([lo] if lo == hi else [lo, hi]):
                if c == 0:
                    want = list(b"\\u0000")
                elif c in ser_rev:
                    want = [ord("\\"), ser_rev[c]]
                else:
                    want = [c % 256]
                got = [v.at({"c": c}) % 256 for v in out]
                if got != want:
                    bad.append("byte 0x%02X is written as %r, expected %r" % (c % 256, bytes(got), bytes(want)))
        ctx.ob(rule, "writeChar escapes exactly the table's bytes and NUL", not bad, fn.where,
               "%d pieces cover the parameter type" % len(res) if not bad else "; ".join(bad[:3]))
