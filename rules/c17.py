"""C17 — escaping is the inverse of unescaping (table clause only).

R-ESC   the single escape table literal of EscapeSequence is split into
        (letter, byte) pairs; offsets are pair-aligned and inside the literal;
        the pairs are a bijection; the serializing suffix is exactly RFC 8259's
        set {" \\ b f n r t}; the parsing table is that set plus '/' and the
        documented single quote.  escapeChar scans pairs with stride 2
        comparing the byte and returning the letter, unescapeChar the
        converse; TextFormatter::writeChar writes '\\' + letter for a hit,
        the literal \\u0000 for NUL and the byte itself otherwise.
R-HEX / R-UTF8 / R-UESCAPE (rules/unicode.py): hex digits, the UTF-8 encoder
and surrogate recombination, decided for every code unit and every pair by
partitioned affine abstract interpretation.
"""
from lib import prog as P

RFC = {ord('"'): ord('"'), ord('\\'): ord('\\'), ord('b'): 8, ord('f'): 12, ord('n'): 10, ord('r'): 13, ord('t'): 9}
PARSE_EXTRA = {ord('/'): ord('/'), ord("'"): ord("'")}


def run(ctx, prog):
    from rules import unicode
    unicode.run(ctx, prog)
    rule = "R-ESC"
    fns = prog.q("EscapeSequence::escapeTable")
    ctx.floor(rule, "escapeTable", len(fns), 1)
    for fn in fns[:1]:
        lit = None
        offs = None
        for i in fn.walk():
            st = fn.s(i)
            if st["k"] == "StringLiteral":
                lit = st.get("bytes")
            if st["k"] == "ConditionalOperator":
                c = fn.s(fn.strip(st["c"][0], casts=True))
                if c["k"] == "DeclRefExpr" and c["ref"]["k"] == "parm":
                    offs = (fn.const(st["c"][1]), fn.const(st["c"][2]))
        if lit is None or offs is None or None in offs:
            ctx.ob(rule, "escape table is one literal indexed by a constant offset", None, fn.where, "shape not recognised")
            return
        ser_off, par_off = offs

        def pairs(off):
            out = {}
            dup = False
            j = off
            while j + 1 < len(lit) and lit[j] != 0:
                if lit[j] in out:
                    dup = True
                out[lit[j]] = lit[j + 1]
                j += 2
            return out, dup, j
        ok_al = ser_off % 2 == 0 and par_off % 2 == 0 and ser_off <= len(lit) and par_off <= len(lit) and len(lit) % 2 == 0
        ctx.ob(rule, "table offsets are pair-aligned and inside the literal", ok_al, fn.where,
               "literal of %d bytes, offsets %d (serialize) / %d (parse)" % (len(lit), ser_off, par_off))
        ser, dup1, _ = pairs(ser_off)
        par, dup2, _ = pairs(par_off)
        bij = not dup1 and not dup2 and len(set(par.values())) == len(par)
        ctx.ob(rule, "escape pairs are a bijection", bij, fn.where, "%d pairs" % len(par))
        ctx.ob(rule, "serializing table is exactly RFC 8259's escape set", ser == RFC, fn.where,
               "{%s}" % ",".join("%s->%02x" % (chr(k), v) for k, v in sorted(ser.items())) if ser == RFC else
               "serializing pairs %s differ from RFC 8259 %s: a byte is escaped that must not be, or an escape is missing" %
               (sorted((chr(k), v) for k, v in ser.items()), sorted((chr(k), v) for k, v in RFC.items())))
        want = dict(RFC)
        want.update(PARSE_EXTRA)
        ctx.ob(rule, "parsing table is RFC 8259's set plus '/' and the single quote", par == want, fn.where,
               "" if par == want else "parsing pairs %s" % sorted((chr(k), v) for k, v in par.items()))
        ctx.ob(rule, "both directions read the same literal", all(ser.get(k) == par.get(k) for k in ser), fn.where, "")
    # which table each direction uses
    for name, flag in (("EscapeSequence::escapeChar", 1), ("EscapeSequence::unescapeChar", 0)):
        for fn in prog.q(name)[:1]:
            arg = None
            stride = None
            cmp_idx = ret_idx = None
            for i, st in fn.calls():
                if st["callee"]["q"].endswith("escapeTable"):
                    arg = fn.const(st["args"][0])
            for i in fn.walk():
                st = fn.s(i)
                if st["k"] == "CompoundAssignOperator" and st["op"] == "+=":
                    stride = fn.const(st["c"][1])
                if st["k"] == "BinaryOperator" and st["op"] in ("==", "!="):
                    for a, b in ((st["c"][0], st["c"][1]), (st["c"][1], st["c"][0])):
                        sa = fn.s(fn.strip(a, casts=True))
                        sb = fn.s(fn.strip(b, casts=True))
                        if sa["k"] == "ArraySubscriptExpr" and sb["k"] == "DeclRefExpr" and sb["ref"]["k"] == "parm":
                            cmp_idx = fn.const(sa["c"][1])
                if st["k"] == "ReturnStmt" and st["c"]:
                    r = fn.s(fn.strip(st["c"][0], casts=True))
                    if r["k"] == "ArraySubscriptExpr":
                        ret_idx = fn.const(r["c"][1])
            want_cmp, want_ret = (1, 0) if flag else (0, 1)
            ok = arg == flag and stride == 2 and cmp_idx == want_cmp and ret_idx == want_ret
            ctx.ob(rule, "%s scans %s pairs: compare [%d], return [%d], stride 2" % (name.split("::")[-1], "serializing" if flag else "parsing", want_cmp, want_ret), ok, fn.where,
                   "" if ok else "found table=%s stride=%s compare=[%s] return=[%s]" % (arg, stride, cmp_idx, ret_idx))
    # writeChar
    for fn in prog.q("TextFormatter::writeChar")[:1]:
        # path on which the byte is zero writes the literal \u0000
        lits = []
        for i, st in fn.calls():
            if st["callee"]["q"].endswith("writeRaw"):
                a = fn.s(fn.strip(st["args"][0], casts=True))
                if a["k"] == "StringLiteral":
                    lits.append((i, bytes(a["bytes"]).rstrip(b"\0")))
        ok = len(lits) == 1 and lits[0][1] == b"\\u0000"
        gz = False
        if ok:
            for cond, pol in fn.guards_of(lits[0][0]):
                c = fn.s(fn.strip(cond, casts=True))
                if c["k"] == "DeclRefExpr" and c["ref"]["k"] == "parm" and pol is False:
                    gz = True
        ctx.ob(rule, "writeChar writes \\u0000 exactly for the NUL byte", ok and gz, fn.where,
               "" if ok and gz else "NUL is not written as the literal \\u0000 on the c == 0 arm")
    ctx.floor(rule, "writeChar", len(prog.q("TextFormatter::writeChar")), 1)
    ctx.doc(rule, "shared escape table vs RFC 8259; scan loops; NUL literal")
