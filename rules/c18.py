"""C18 — comparison operators form one coherent relation (structural clauses).

R-CAST    in every instantiation of arithmeticCompare<T1,T2> and of the
          Comparer visit functions, each integral conversion of an operand has
          source range within target range, or is dominated by the sign test
          that makes it so, or converts to double (to float only from a type
          whose every value a float holds exactly).
R-MINEQ   a function that bounds a byte comparison by min(size_a,size_b)
          reaches an 'equal' result only on paths that also compared the two
          sizes.
R-OPTABLE every relational operator template of VariantOperators computes the
          truth table its spelling promises from the three-way result of
          compare(), for its operand order (folded for each of the four
          CompareResult values).
R-CMPRET  comparers return only the four base CompareResult values, and
          VariantComparer mirrors through reverseResult (GREATER<->LESS).
R-NUL     no sized string loses its length inside comparison code.
R-OBJEQ   object equality tests membership separately from value equality
          (an unbound lookup result compares equal to null).
"""
from lib import prog as P
from rules import nul


def int_range(tk):
    if tk == "bool":
        return (0, 1)
    if tk and tk[0] in "su" and tk[1:].isdigit():
        w = int(tk[1:])
        if tk[0] == "u":
            return (0, (1 << w) - 1)
        return (-(1 << (w - 1)), (1 << (w - 1)) - 1)
    return None


def root_param(fn, i):
    """Parameter a (cast-free) operand expression designates, or None."""
    st = fn.s(fn.strip(i, casts=False))
    while st["k"] in P.TRANSPARENT:
        st = fn.s(st["c"][0])
    if st["k"] == "DeclRefExpr" and st["ref"]["k"] == "parm":
        return st["ref"]
    if st["k"] == "MemberExpr" and fn.s(st["c"][0])["k"] == "CXXThisExpr":
        return {"n": "this->" + st["m"], "d": -st.get("d", 0) - 1}
    return None


def sign_guard(fn, at, ref):
    """Is `at` dominated by the false edge of (x < 0) / true edge of (x >= 0)
    for the same operand?"""
    for cond, pol in fn.guards_of(at):
        c = fn.s(fn.strip(cond, casts=True))
        if c["k"] != "BinaryOperator" or c["op"] not in ("<", ">=", ">", "<="):
            continue
        a, b = c["c"]
        ra = root_param(fn, a)
        sb = fn.s(fn.strip(b, casts=True))
        if ra is not None and ra["d"] == ref["d"] and sb.get("cv") == "0":
            if (c["op"] == "<" and pol is False) or (c["op"] == ">=" and pol is True):
                return True
        rb = root_param(fn, b)
        sa = fn.s(fn.strip(a, casts=True))
        if rb is not None and rb["d"] == ref["d"] and sa.get("cv") == "0":
            if (c["op"] == ">" and pol is False) or (c["op"] == "<=" and pol is True):
                return True
    return False


def r_cast(ctx, prog):
    rule = "R-CAST"
    fns = [f for f in prog.fns.values()
           if f.name == "arithmeticCompare" or
           (f.name == "visit" and f.cls.split("::")[-1] in ("Comparer", "VariantComparer", "RawComparer"))]
    n_inst = 0
    n_casts = 0
    for fn in sorted(fns, key=lambda f: f.key):
        if fn.name == "arithmeticCompare":
            n_inst += 1
        for i in fn.walk():
            st = fn.s(i)
            if st["k"] not in P.EXPLICIT_CASTS and st["k"] != "ImplicitCastExpr":
                continue
            if st.get("ck") not in ("IntegralCast", "IntegralToBoolean", "IntegralToFloating", "FloatingToIntegral", "FloatingCast", "NoOp"):
                continue
            fk = st.get("fromk")
            tk = st.get("tk")
            ref = root_param(fn, st["c"][0])
            if ref is None:
                continue  # literals, results of other expressions
            targs = ",".join(fn.d.get("targs", []) or fn.d.get("ctargs", []))
            inst = "%s<%s>: %s %s -> %s" % (fn.short, targs, ref["n"], fk, tk)
            n_casts += 1
            if tk == "f32" and fk != "f32":
                fr = int_range(fk)
                if fr is None or fr[0] < -(1 << 24) or fr[1] > (1 << 24):
                    ctx.ob(rule, inst, False, fn.loc(i),
                           "operand %s of type %s is converted to float before the comparison: distinct values above 2^24 (or distinct "
                           "doubles) collapse onto one float and compare equal; mixed comparisons are specified 'as doubles': %s" %
                           (ref["n"], fk, fn.text(i)))
                    continue
            if tk in ("f32", "f64"):
                ctx.ob(rule, inst, True, fn.loc(i), "conversion to floating point (the property's 'otherwise as doubles')", nontrivial=False)
                continue
            if st.get("ck") == "FloatingToIntegral":
                ctx.ob(rule, inst, False, fn.loc(i), "floating operand converted to an integer before comparison")
                continue
            fr, tr = int_range(fk), int_range(tk)
            if fr is None or tr is None:
                continue
            if tr[0] <= fr[0] and fr[1] <= tr[1]:
                ctx.ob(rule, inst, True, fn.loc(i), "range of %s within range of %s" % (fk, tk), nontrivial=(fk != tk))
                continue
            # signed -> unsigned of at least the same width: fine under x >= 0
            if fk[0] == "s" and tk[0] == "u" and fr[1] <= tr[1] and sign_guard(fn, i, ref):
                ctx.ob(rule, inst, True, fn.loc(i), "negative values excluded by the dominating sign test on %s" % ref["n"])
                continue
            ctx.ob(rule, inst, False, fn.loc(i),
                   "operand %s of type %s is converted to %s without a dominating test: values outside [%d, %d] "
                   "change (sign or magnitude lost), so the comparison no longer agrees with the numeric values: %s" %
                   (ref["n"], fk, tk, tr[0], tr[1], fn.text(i)))
    ctx.floor(rule, "arithmeticCompare instantiations", n_inst, 30)
    ctx.count(rule + ":operand_conversions", n_casts)


def norm_text(fn, i):
    return fn.text(fn.strip(i, casts=True))


def r_mineq(ctx, prog):
    rule = "R-MINEQ"
    n = 0
    for fn in sorted(prog.fns.values(), key=lambda f: f.key):
        mins = []
        for i in fn.walk():
            st = fn.s(i)
            if st["k"] != "ConditionalOperator":
                continue
            c = fn.s(fn.strip(st["c"][0], casts=True))
            if c["k"] != "BinaryOperator" or c["op"] not in ("<", ">", "<=", ">="):
                continue
            a, b = norm_text(fn, c["c"][0]), norm_text(fn, c["c"][1])
            x, y = norm_text(fn, st["c"][1]), norm_text(fn, st["c"][2])
            if {a, b} == {x, y} and a != b:
                tk = st.get("tk", "")
                if tk.startswith("u"):
                    mins.append((i, a, b, fn.strip(st["c"][0], casts=True)))
        if not mins:
            continue
        # only functions that compare bytes/chars under that bound
        uses_cmp = any(fn.is_call_to(j, "memcmp", "strncmp", "memcmp_P", "strncmp_P") for j, _ in fn.calls()) or \
            any(fn.s(j)["k"] in ("ForStmt", "WhileStmt") for j in fn.walk())
        if not uses_cmp:
            continue
        for (mi, a, b, mcond) in mins:
            n += 1
            # 'equal' results: return 0 / true / COMPARE_RESULT_EQUAL
            for j in fn.walk():
                st = fn.s(j)
                if st["k"] != "ReturnStmt" or not st["c"]:
                    continue
                r = fn.s(fn.strip(st["c"][0], casts=True))
                is_eq = False
                if r["k"] == "DeclRefExpr" and r["ref"]["k"] == "enumerator" and r["ref"]["n"].endswith("_EQUAL") and "OR" not in r["ref"]["n"]:
                    is_eq = True
                elif r["k"] == "IntegerLiteral" and r.get("v") == "0" and fn.d.get("retk", "").startswith("s"):
                    is_eq = True
                elif r["k"] == "CXXBoolLiteralExpr" and r.get("v") is True:
                    is_eq = True
                if not is_eq:
                    continue
                ok = False
                for cond, pol in fn.guards_of(j):
                    c = fn.s(fn.strip(cond, casts=True))
                    if fn.strip(cond, casts=True) == mcond:
                        continue
                    if c["k"] == "BinaryOperator" and c["op"] in ("<", ">", "<=", ">=", "==", "!="):
                        if {norm_text(fn, c["c"][0]), norm_text(fn, c["c"][1])} == {a, b}:
                            ok = True
                ctx.ob(rule, "%s: equal only if sizes agree" % fn.short, ok, fn.loc(j),
                       "the 'equal' result is reached only after comparing %s with %s" % (a, b) if ok else
                       "bytes are compared up to min(%s, %s) and 'equal' is returned without comparing the two sizes: "
                       "a value that is a prefix of the other compares equal" % (a, b))
    ctx.floor(rule, "min-bounded comparisons", n, 2)


def eval_r(fn, i, r, compare_pos):
    """Evaluate expression i with the compare() call replaced by value r.
    compare_pos collects the call node."""
    i2 = fn.strip(i, casts=True)
    st = fn.s(i2)
    k = st["k"]
    if k == "CallExpr" and st.get("callee", {}).get("q", "").endswith("detail::compare"):
        compare_pos.append(i2)
        return r
    if "cv" in st:
        return int(st["cv"])
    if k == "BinaryOperator":
        a = eval_r(fn, st["c"][0], r, compare_pos)
        b = eval_r(fn, st["c"][1], r, compare_pos)
        if a is None or b is None:
            return None
        op = st["op"]
        try:
            return {"==": int(a == b), "!=": int(a != b), "&": a & b, "|": a | b,
                    "<": int(a < b), ">": int(a > b), "<=": int(a <= b), ">=": int(a >= b),
                    "&&": int(bool(a) and bool(b)), "||": int(bool(a) or bool(b)), "^": a ^ b}[op]
        except KeyError:
            return None
    if k == "UnaryOperator" and st["op"] == "!":
        a = eval_r(fn, st["c"][0], r, compare_pos)
        return None if a is None else int(not a)
    return None


def r_optable(ctx, prog):
    rule = "R-OPTABLE"
    E = {}
    for e in prog.enum("detail::CompareResult"):
        for c in e["consts"]:
            E[c["n"]] = int(c["v"])
    need = ("COMPARE_RESULT_DIFFER", "COMPARE_RESULT_EQUAL", "COMPARE_RESULT_GREATER", "COMPARE_RESULT_LESS")
    if any(n not in E for n in need):
        ctx.brk(rule, "enum CompareResult not found")
        return
    D, Q, G, L = [E[n] for n in need]
    ok_enum = len({D, Q, G, L}) == 4
    ctx.ob(rule, "CompareResult base values are distinct", ok_enum, "Numbers/arithmeticCompare.hpp", str({n: E[n] for n in need}))
    want = {
        "operator==": lambda r: r == Q, "operator!=": lambda r: r != Q,
        "operator<": lambda r: r == L, "operator<=": lambda r: r in (L, Q),
        "operator>": lambda r: r == G, "operator>=": lambda r: r in (G, Q),
    }
    mirror = {L: G, G: L, Q: Q, D: D}
    n = 0
    shapes = set()
    for fn in sorted(prog.fns.values(), key=lambda f: f.key):
        if fn.name not in want or not fn.file.endswith("VariantOperators.hpp"):
            continue
        rets = [j for j in fn.walk() if fn.s(j)["k"] == "ReturnStmt"]
        if len(rets) != 1 or len(fn.params) != 2:
            ctx.ob(rule, "%s(%s): shape" % (fn.name, fn.params and fn.params[0]["t"]), None, fn.where, "operator body is not a single return")
            continue
        n += 1
        table = {}
        pos = []
        for r in (D, Q, G, L):
            table[r] = eval_r(fn, fn.s(rets[0])["c"][0], r, pos)
        p0 = fn.params[0]
        variant_first = "Variant" in (p0.get("tr") or "") or "Proxy" in (p0.get("tr") or "") or \
            (p0.get("tr") or "").split("::")[-1] in ("JsonVariant", "JsonVariantConst", "JsonDocument", "JsonArray", "JsonObject")
        shape = "%s %s" % (fn.name, "variant-op-value" if variant_first else "value-op-variant")
        shapes.add(shape + (" ptr" if "*" in fn.params[1 if variant_first else 0]["t"] else " ref"))
        if not pos or any(v is None for v in table.values()):
            ctx.ob(rule, shape, None, fn.where, "cannot fold the operator body over the compare() result: %s" % fn.text(rets[0]))
            continue
        # which parameter is passed first to compare()?
        call = fn.s(pos[0])
        a0 = call["args"][0]
        first = None
        for j in fn.walk(a0):
            s2 = fn.s(j)
            if s2["k"] == "DeclRefExpr" and s2["ref"]["k"] == "parm":
                first = [p["d"] for p in fn.params].index(s2["ref"]["d"])
                break
        if first is None:
            ctx.ob(rule, shape, None, fn.where, "cannot tell the operand order of compare()")
            continue
        bad = None
        for r in (D, Q, G, L):
            rr = r if first == 0 else mirror[r]
            if bool(table[r]) != bool(want[fn.name](rr)):
                bad = r
                break
        names = {D: "DIFFER", Q: "EQUAL", G: "GREATER", L: "LESS"}
        ctx.ob(rule, shape, bad is None, fn.loc(rets[0]),
               "truth table over {DIFFER,EQUAL,GREATER,LESS} matches '%s' for operand order %s" % (fn.name[8:], "as written" if first == 0 else "swapped")
               if bad is None else
               "%s with compare(%s) = %s yields %s, but '%s' requires %s: %s" %
               (fn.name, "lhs,rhs" if first == 0 else "rhs,lhs", names[bad], bool(table[bad]), fn.name[8:],
                bool(want[fn.name](bad if first == 0 else mirror[bad])), fn.text(rets[0])))
    ctx.floor(rule, "operator instantiations", n, 100)
    ctx.floor(rule, "operator shapes", len(shapes), 24)

    # ---- R-CMPRET
    rule = "R-CMPRET"
    base = {"COMPARE_RESULT_DIFFER", "COMPARE_RESULT_EQUAL", "COMPARE_RESULT_GREATER", "COMPARE_RESULT_LESS"}
    nret = 0
    for fn in sorted(prog.fns.values(), key=lambda f: f.key):
        if fn.d.get("ret", "").split("::")[-1] != "CompareResult":
            continue
        for j in fn.walk():
            st = fn.s(j)
            if st["k"] == "ReturnStmt" and st["c"]:
                r = fn.s(fn.strip(st["c"][0], casts=True))
                if r["k"] == "DeclRefExpr" and r["ref"]["k"] == "enumerator":
                    nret += 1
                    ctx.ob(rule, "%s returns %s" % (fn.short, r["ref"]["n"]), r["ref"]["n"] in base, fn.loc(j),
                           "" if r["ref"]["n"] in base else "a comparer returns a compound mask, which no operator decodes", nontrivial=False)
    ctx.floor(rule, "enumerator returns", nret, 20)
    # reverseResult: GREATER <-> LESS, identity otherwise
    for fn in prog.q("VariantComparer::reverseResult"):
        m = {}
        blocks = fn.blocks()
        for b in fn.cfg["blocks"]:
            if b.get("termk") == "SwitchStmt":
                for s in b["succ"]:
                    lb = blocks[s].get("label") if s >= 0 else None
                    if lb is None:
                        continue
                    ls = fn.s(lb)
                    # the return in the case block
                    rv = None
                    for e in blocks[s]["el"]:
                        if isinstance(e, int) and fn.s(e)["k"] == "ReturnStmt":
                            r = fn.s(fn.strip(fn.s(e)["c"][0], casts=True))
                            rv = r["ref"]["n"] if r["k"] == "DeclRefExpr" and r["ref"]["k"] == "enumerator" else ("same" if r["k"] == "DeclRefExpr" else None)
                    if ls["k"] == "CaseStmt":
                        m[int(ls["lo"])] = rv
                    else:
                        m["default"] = rv
        ok = m.get(G) == "COMPARE_RESULT_LESS" and m.get(L) == "COMPARE_RESULT_GREATER" and m.get("default") == "same" and len(m) == 3
        ctx.ob(rule, "reverseResult mirrors GREATER/LESS", ok, fn.where, str(m))
    for fn in prog.q("VariantComparer::visit"):
        rets = [j for j in fn.walk() if fn.s(j)["k"] == "ReturnStmt"]
        ok = bool(rets) and all(fn.is_call_to(fn.strip(fn.s(j)["c"][0], casts=True), "VariantComparer::reverseResult") for j in rets)
        ctx.ob(rule, "VariantComparer::visit(%s) goes through reverseResult" % fn.params[0]["t"].replace("ArduinoJson::", ""), ok, fn.where,
               "" if ok else "result of the inner comparer is returned without mirroring: a<b and b>a disagree")
    ctx.floor(rule, "VariantComparer::visit overloads", len(prog.q("VariantComparer::visit")), 9)


def r_objeq(ctx, prog):
    """operator==(JsonObjectConst, JsonObjectConst): a member of one object
    looked up in the other is compared only after the lookup result was
    tested for presence (isUnbound/isNull...): compare(unbound, null) is
    EQUAL by design, so value comparison alone equates {"a":null} and
    {"b":null}."""
    rule = "R-OBJEQ"
    n = 0
    for fn in sorted(prog.fns.values(), key=lambda f: f.key):
        if fn.name != "operator==" or len(fn.params) != 2:
            continue
        if not all((p.get("tr") or "").endswith("JsonObjectConst") for p in fn.params):
            continue
        n += 1
        # lookups: CXXOperatorCallExpr operator[] on a parameter
        lookups = []
        for i, st in fn.calls():
            if st["callee"]["q"].endswith("JsonObjectConst::operator[]"):
                lookups.append(i)
        if not lookups:
            ctx.ob(rule, "object equality looks members up", None, fn.where, "no member lookup found")
            continue
        for i in lookups:
            # where does the result go?  into a local that is tested, or
            # straight into a comparison
            tested = False
            par = i
            local = None
            for a in fn.ancestors(i):
                sa = fn.s(a)
                if sa["k"] == "DeclStmt":
                    for d in sa["decls"]:
                        local = d["d"]
                    break
                if sa["k"] in P.CALL_KINDS and sa.get("callee", {}).get("q", "").split("::")[-1] in ("operator!=", "operator==", "compare"):
                    break
            if local is not None:
                for j, sj in fn.calls():
                    if sj["callee"]["q"].split("::")[-1] in ("isUnbound", "containsKey") and "obj" in sj:
                        o = fn.s(fn.strip(sj["obj"], casts=True))
                        # through derived-to-base casts
                        for x in fn.walk(sj["obj"]):
                            sx = fn.s(x)
                            if sx["k"] == "DeclRefExpr" and sx["ref"]["d"] == local:
                                tested = True
            ctx.ob(rule, "object equality tests presence of each looked-up member", tested, fn.loc(i),
                   "lookup result is tested with isUnbound() before its value is compared" if tested else
                   "the looked-up member is compared by value only; a missing member (unbound) compares equal to null, "
                   "so objects with different key sets can compare equal")
    ctx.floor(rule, "object equality operators", n, 1)


def run(ctx, prog):
    for line in __doc__.strip().split("\n\n")[1].split("\nR-"):
        pass
    r_cast(ctx, prog)
    r_mineq(ctx, prog)
    r_optable(ctx, prog)
    r_objeq(ctx, prog)
    nul.run(ctx, prog, rule="R-NUL",
            only_files=["Variant/VariantCompare.hpp", "Variant/VariantOperators.hpp", "Strings/", "Object/JsonObjectConst.hpp", "Array/JsonArrayConst.hpp"])
    ctx.doc("R-CAST", "lossless operand conversions in arithmeticCompare/Comparer")
    ctx.doc("R-MINEQ", "size-aware equality where bytes are compared up to min(size)")
    ctx.doc("R-OPTABLE", "operator templates decode the three-way result as their spelling promises")
    ctx.doc("R-CMPRET", "comparers return base values; VariantComparer mirrors via reverseResult")
    ctx.doc("R-OBJEQ", "object equality tests membership separately")
