"""C19 — capacity limits are clean edges; slot ids, lengths and reference
counts never wrap (structural clauses).

R-GEOM   for every geometry (SLOT_ID_SIZE x POOL_CAPACITY x INITIAL_POOL_COUNT)
         an inductive argument is checked on MemoryPoolList, with every
         constant folded by clang for that configuration:
           I1 count_++ is dominated by a guard count_ < maxPools (or the
              capacity recurrence provably stops at maxPools);
           I2 the capacity handed to Pool::create is a constant C', or the
              constant L on the edge count_ == maxPools taken after the
              increment;
           I3 ids are poolIndex*C + slot.id() with poolIndex = count_-1 and
              slot.id() < pool capacity (MemoryPool::allocSlot guard);
           A  arithmetic on those constants: every id <= NULL_SLOT-1, no cast
              truncates;
           I4 PoolCount(capacity_*2) cannot wrap.
R-WIDTH  type-level facts per configuration: NULL_SLOT all-ones, maxLength =
         2^(8*STRING_LENGTH_SIZE)-1 = max of length_type, reference counter at
         least as wide as a slot id.
R-LEN    StringNode::create/resize: the allocation and the narrowing
         length_type(length) are dominated by length <= maxLength.
R-GROW   StringBuilder::append grows 2n+1 from 2^k-1, so requests are always
         of the form 2^k-1 and meet maxLength exactly.
"""
from lib import facts
from lib import prog as P

GEOM_QUICK = [(s, c, i) for s in (1, 2, 4) for c in (3, 16, 100, 256) for i in (1, 3, 4)]
GEOM_THOROUGH = [(s, c, i) for s in (1, 2) for c in range(2, 257) for i in (1, 4)] + \
                [(4, c, i) for c in (2, 3, 7, 16, 100, 128, 255, 256, 1000) for i in (1, 2, 3, 4)] + \
                [(s, c, i) for s in (1, 2) for c in (2, 3, 7, 16, 100, 128, 255, 256) for i in (2, 3)]

CONFIGS = ["default", "small", "allon"]


def cvint(st):
    return int(st["cv"]) if "cv" in st else None


def member_name(fn, i):
    st = fn.s(fn.strip(i, casts=True))
    if st["k"] == "MemberExpr" and fn.s(fn.strip(st["c"][0], casts=True))["k"] == "CXXThisExpr":
        return st["m"]
    return None


def cmp_member_const(fn, cond):
    """cond is `<member> OP <const>` -> (member, op, const) else None"""
    c = fn.s(fn.strip(cond, casts=True))
    if c["k"] != "BinaryOperator" or c["op"] not in ("==", "!=", "<", "<=", ">", ">="):
        return None
    a, b = c["c"]
    ma, mb = member_name(fn, a), member_name(fn, b)
    ca, cb = fn.const(a), fn.const(b)
    if ma and cb is not None:
        return (ma, c["op"], cb)
    if mb and ca is not None:
        flip = {"<": ">", ">": "<", "<=": ">=", ">=": "<=", "==": "==", "!=": "!="}
        return (mb, flip[c["op"]], ca)
    return None


def geom_one(ctx, prog, S, C, I):
    rule = "R-GEOM"
    tag = "S=%d C=%d I=%d" % (S, C, I)
    W = 1 << (8 * S)
    g = {x["q"].split("::")[-1]: x for x in prog.globals if not x.get("dependent") and x.get("value") is not None}
    if "NULL_SLOT" not in g or "maxPools" not in g:
        ctx.brk(rule, "%s: NULL_SLOT/maxPools not found" % tag)
        return
    N = int(g["NULL_SLOT"]["value"])
    K = int(g["maxPools"]["value"])
    ap = prog.q("MemoryPoolList::addPool")
    ic = prog.q("MemoryPoolList::increaseCapacity")
    al = prog.q("MemoryPoolList::allocFromLastPool")
    mp = prog.q("MemoryPool::allocSlot")
    if not (ap and ic and al and mp):
        ctx.brk(rule, "%s: MemoryPoolList functions not found" % tag)
        return
    ap, ic, al, mp = ap[0], ic[0], al[0], mp[0]
    ctx.ob(rule, "NULL_SLOT is the all-ones id [%s]" % tag, N == W - 1, "Memory/MemoryPool.hpp", "NULL_SLOT=%d" % N, nontrivial=False)

    # ---- I1: the increment of count_ and its guards
    inc = None
    for i in ap.walk():
        st = ap.s(i)
        if st["k"] == "UnaryOperator" and st["op"] == "++" and member_name(ap, st["c"][0]) == "count_":
            inc = i
    if inc is None:
        ctx.ob(rule, "addPool increments count_ [%s]" % tag, None, ap.where, "count_++ not found: pattern changed")
        return
    bound = None  # count_ < bound before the increment
    for cond, pol in ap.guards_of(inc):
        r = cmp_member_const(ap, cond)
        if not r or r[0] != "count_":
            continue
        m, op, k = r
        # the edge taken towards the increment
        if (op == ">=" and pol is False):
            b = k
        elif (op == ">" and pol is False):
            b = k + 1
        elif (op == "==" and pol is False):
            b = k  # count_ grows by one from 0: never skips k
        elif (op == "<" and pol is True):
            b = k
        elif (op == "<=" and pol is True):
            b = k + 1
        elif (op == "!=" and pol is True):
            b = k
        else:
            continue
        bound = b if bound is None else min(bound, b)
    cap_note = ""
    if bound is None:
        # fall back on the capacity recurrence: count_ < capacity_ and
        # capacity_ stops growing at its guard
        stop = None
        for b_, cond, succ in ic.branch_conditions():
            r = cmp_member_const(ic, cond)
            if r and r[0] == "capacity_":
                stop = r
        dbl = any(ic.s(i)["k"] == "BinaryOperator" and ic.s(i)["op"] == "*" and
                  member_name(ic, ic.s(i)["c"][0]) == "capacity_" and ic.const(ic.s(i)["c"][1]) == 2
                  for i in ic.walk())
        if stop and dbl and stop[1] == "==":
            k = stop[2]
            # capacity_ = I*2^j (mod 2^(8S)); it equals k for some j before wrapping
            # iff k % I == 0 and k/I is a power of two
            q = k // I if I and k % I == 0 else 0
            hits = q >= 1 and (q & (q - 1)) == 0
            if hits:
                bound = k
                cap_note = "capacity_ doubles from %d and stops exactly at %d" % (I, k)
            else:
                ctx.ob(rule, "pool count bounded by maxPools [%s]" % tag, False, ic.where,
                       "count_ is bounded only by capacity_, which doubles from INITIAL_POOL_COUNT=%d and stops only when it "
                       "equals maxPools=%d exactly; %d is not %d*2^j, so capacity_ skips it (and PoolCount(capacity_*2) wraps "
                       "modulo %d): pools beyond maxPools are created and slot ids wrap" % (I, k, k, I, W))
                return
        elif stop and stop[1] in (">=", ">"):
            bound = stop[2] if stop[1] == ">=" else stop[2] + 1
            # count_ < capacity_ <= max(newCapacity); checked under I4
            cap_note = "count_ < capacity_ and capacity_ stops at %d" % bound
        else:
            ctx.ob(rule, "pool count bounded by maxPools [%s]" % tag, None, ap.loc(inc),
                   "no guard on count_ and the capacity recurrence is not of a recognised form")
            return
    P_ = bound  # number of pools that can ever be created
    ctx.ob(rule, "pool count bounded by maxPools [%s]" % tag, P_ <= K, ap.loc(inc),
           "count_++ reachable only while count_ < %d (maxPools=%d) %s" % (P_, K, cap_note) if P_ <= K else
           "count_++ is reachable with count_ up to %d but maxPools is %d: one pool too many" % (P_ - 1, K))

    # ---- I2: capacity handed to create()
    cap_local = None
    create_call = None
    for i, st in ap.calls():
        if st["callee"]["q"].endswith("MemoryPool::create"):
            create_call = i
            a0 = ap.s(ap.strip(st["args"][0], casts=True))
            if a0["k"] == "DeclRefExpr":
                cap_local = a0["ref"]["d"]
    if cap_local is None:
        ctx.ob(rule, "pool capacities are constants [%s]" % tag, None, ap.where, "Pool::create is not called with a local capacity")
        return
    Cn = None
    last = None  # (index of the short pool, its capacity)
    for i in ap.walk():
        st = ap.s(i)
        if st["k"] == "DeclStmt":
            for d in st["decls"]:
                if d["d"] == cap_local and "init" in d:
                    Cn = ap.const(d["init"])
    mods = []
    for i in ap.walk():
        st = ap.s(i)
        tgt = None
        newv = None
        if st["k"] == "UnaryOperator" and st["op"] in ("--", "++"):
            t = ap.s(ap.strip(st["c"][0]))
            if t["k"] == "DeclRefExpr" and t["ref"]["d"] == cap_local:
                tgt = i
                newv = ("delta", -1 if st["op"] == "--" else 1)
        elif st["k"] in ("BinaryOperator", "CompoundAssignOperator") and st["op"] in ("=", "-=", "+="):
            t = ap.s(ap.strip(st["c"][0]))
            if t["k"] == "DeclRefExpr" and t["ref"]["d"] == cap_local:
                v = ap.const(st["c"][1])
                tgt = i
                newv = ("set", v) if st["op"] == "=" else ("delta", -v if st["op"] == "-=" and v is not None else v)
        if tgt is not None:
            mods.append((tgt, newv))
    if Cn is None or len(mods) > 1:
        ctx.ob(rule, "pool capacities are constants [%s]" % tag, None, ap.where, "capacity local is not (constant, one conditional adjustment)")
        return
    if mods:
        mi, newv = mods[0]
        if newv[1] is None:
            ctx.ob(rule, "pool capacities are constants [%s]" % tag, None, ap.loc(mi), "adjustment is not a constant")
            return
        trig = None
        for cond, pol in ap.guards_of(mi):
            r = cmp_member_const(ap, cond)
            if r and r[0] == "count_" and r[1] == "==" and pol is True:
                after = ap.stmt_dominates(inc, ap.strip(cond, casts=True)) or ap.stmt_dominates(inc, cond)
                trig = r[2] - 1 if after else r[2]
        if trig is None:
            ctx.ob(rule, "pool capacities are constants [%s]" % tag, None, ap.loc(mi), "the short pool is not selected by count_ == constant")
            return
        Ln = newv[1] if newv[0] == "set" else (Cn + newv[1]) % W
        last = (trig, Ln)
    ctx.ob(rule, "pool capacities are constants [%s]" % tag, True, ap.where,
           "regular pools: %d slots; pool #%s: %s slots" % (Cn, last[0] if last else "-", last[1] if last else "-"), nontrivial=False)

    # ---- I3: id expression and per-pool index bound
    idok = False
    for i in al.walk():
        st = al.s(i)
        if st["k"] == "BinaryOperator" and st["op"] == "+":
            a = al.s(al.strip(st["c"][0], casts=True))
            b = al.s(al.strip(st["c"][1], casts=True))
            if a["k"] == "BinaryOperator" and a["op"] == "*":
                k2 = al.const(a["c"][1])
                if k2 == C and b["k"] in P.CALL_KINDS and b.get("callee", {}).get("q", "").endswith("Slot::id"):
                    idok = True
    ctx.ob(rule, "id = poolIndex*POOL_CAPACITY + index [%s]" % tag, True if idok else None, al.where,
           "" if idok else "id expression of allocFromLastPool not recognised")
    # MemoryPool::allocSlot: index = usage_++ dominated by !(usage_ >= capacity_)
    writes = []
    for i in mp.walk():
        st = mp.s(i)
        if st["k"] == "UnaryOperator" and st["op"] == "++" and member_name(mp, st["c"][0]) == "usage_":
            writes.append(i)
        elif st["k"] in ("BinaryOperator", "CompoundAssignOperator") and st["op"] in ("=", "+=") and member_name(mp, st["c"][0]) == "usage_":
            writes.append(i)
    gok = None
    for i in writes:
        g = False
        for cond, pol in mp.guards_of(i):
            c = mp.s(mp.strip(cond, casts=True))
            if c["k"] == "BinaryOperator" and c["op"] in (">=", "<", "==", "!=", ">", "<="):
                ms = [member_name(mp, x) for x in c["c"]]
                op = c["op"]
                if ms == ["capacity_", "usage_"]:
                    op = {">=": "<=", "<": ">", "==": "==", "!=": "!=", ">": "<", "<=": ">="}[op]
                    ms = ["usage_", "capacity_"]
                if ms == ["usage_", "capacity_"] and ((op in (">=", "==") and pol is False) or (op in ("<", "!=") and pol is True)):
                    g = True
        gok = g if gok is None else (gok and g)
    ctx.ob(rule, "slot index < pool capacity [%s]" % tag, gok, mp.where,
           "every advance of usage_ is dominated by usage_ < capacity_" if gok else
           ("no write to usage_ found in MemoryPool::allocSlot" if gok is None else
            "MemoryPool::allocSlot advances usage_ without the usage_ < capacity_ guard"))

    # ---- A: arithmetic on the constants
    worst = None
    for p in range(P_ - 1, max(P_ - 3, -1), -1):
        cap = last[1] if (last and p == last[0]) else Cn
        if cap == 0:
            continue
        mx = p * C + cap - 1
        if mx > N - 1 and worst is None:
            worst = (p, cap, mx)
    # also the short pool itself if it is not among the last two
    if last and 0 <= last[0] < P_:
        mx = last[0] * C + last[1] - 1
        if last[1] and mx > N - 1 and worst is None:
            worst = (last[0], last[1], mx)
    trunc = (Cn != C and P_ >= 2 and not (last and last[0] == 0 and P_ == 1))
    ctx.ob(rule, "every slot id < NULL_SLOT [%s]" % tag, worst is None, ap.where,
           "pools 0..%d, largest id %d <= %d" % (P_ - 1, max([(p * C + ((last[1] if last and p == last[0] else Cn) or 1) - 1) for p in range(max(P_ - 2, 0), P_)] or [0]), N - 1)
           if worst is None else
           "pool #%d with %d slots produces id %d, but ids must stay below NULL_SLOT=%d: SlotId(...) wraps and two values share a slot" % (worst[0], worst[1], worst[2], N))
    # A2: the limit is a clean edge: the pools together hold exactly
    # NULL_SLOT slots (ids 0..NULL_SLOT-1), not fewer
    if worst is None and P_ <= K:
        total = P_ * Cn
        if last and 0 <= last[0] < P_:
            total += last[1] - Cn
        ctx.ob(rule, "slot capacity reaches NULL_SLOT [%s]" % tag, total == N, ap.where,
               "%d pools hold %d slots = NULL_SLOT" % (P_, total) if total == N else
               "%d pools hold %d slots but ids 0..%d are available: a history with more than %d values fails in this "
               "geometry although it stays below the documented limit of %d slots" % (P_, total, N - 1, total, N))

    # R-NULLSLOT: getSlot maps the reserved id to a null pointer
    for gs in prog.q("MemoryPoolList::getSlot"):
        acc = None
        for i, st in gs.calls():
            if st["callee"]["q"].endswith("MemoryPool::getSlot"):
                acc = i
        if acc is None:
            ctx.ob(rule, "getSlot(NULL_SLOT) is null [%s]" % tag, None, gs.where, "pool access not found")
            continue
        ok = False
        other = None
        idp = gs.params[0]["d"] if gs.params else None
        for cond, pol in gs.guards_of(acc):
            c = gs.s(gs.strip(cond, casts=True))
            if c["k"] == "BinaryOperator" and c["op"] in ("==", "!="):
                a, b = c["c"]
                for x, y in ((a, b), (b, a)):
                    sx = gs.s(gs.strip(x, casts=True))
                    if sx["k"] == "DeclRefExpr" and sx["ref"]["d"] == idp and gs.const(y) == N:
                        if (c["op"] == "==" and pol is False) or (c["op"] == "!=" and pol is True):
                            ok = True
            elif c["k"] == "BinaryOperator" and c["op"] in (">=", "<", ">", "<="):
                other = gs.text(cond)
        if not ok and other is not None:
            # an index guard excludes NULL_SLOT only if its pool index can
            # never exist: NULL_SLOT / C >= maximum pool count
            ok = (N // C) >= P_
        ctx.ob(rule, "getSlot(NULL_SLOT) is null [%s]" % tag, ok, gs.loc(acc),
               "pool access dominated by id != NULL_SLOT" if ok else
               "the reserved id %d falls into pool #%d, which exists once %d pools are allocated: getSlot(NULL_SLOT) returns a "
               "pointer past that pool instead of null, so every list walk runs off the end (guard: %s)" % (N, N // C, N // C + 1, other or "none"))

    if P_ >= 2 or not last:
        ctx.ob(rule, "POOL_CAPACITY fits SlotCount [%s]" % tag, not trunc, ap.where,
               "SlotCount(POOL_CAPACITY)=%d" % Cn if not trunc else "POOL_CAPACITY=%d is truncated to %d by SlotCount" % (C, Cn))

    # ---- I4: PoolCount(capacity_*2) cannot wrap
    for i in ic.walk():
        st = ic.s(i)
        if st["k"] == "BinaryOperator" and st["op"] == "*" and member_name(ic, st["c"][0]) == "capacity_":
            lim = None
            for cond, pol in ic.guards_of(i):
                r = cmp_member_const(ic, cond)
                if r and r[0] == "capacity_":
                    m, op, k = r
                    if op == ">" and pol is False:
                        lim = k if lim is None else min(lim, k)
                    elif op == ">=" and pol is False:
                        lim = k - 1 if lim is None else min(lim, k - 1)
                    elif op == "==" and pol is False and cap_note:
                        lim = k // 2 if lim is None else min(lim, k // 2)
            ok = lim is not None and 2 * lim <= W - 1
            ctx.ob(rule, "capacity doubling cannot wrap [%s]" % tag, ok if lim is not None else None, ic.loc(i),
                   "capacity_*2 evaluated only while capacity_ <= %d" % lim if lim is not None else "no constant bound on capacity_ at the doubling")


def widths(ctx, prog, S_expected=None, L_expected=None):
    rule = "R-WIDTH"
    recs = [r for r in prog.record("detail::StringNode") if not r["dependent"]]
    g = {x["q"].split("::")[-1]: x for x in prog.globals if not x.get("dependent") and x.get("value") is not None}
    if not recs or "maxLength" not in g or "NULL_SLOT" not in g:
        ctx.brk(rule, "StringNode / maxLength / NULL_SLOT not found")
        return
    f = {x["n"]: x for x in recs[0]["fields"]}
    ls = f["length"]["size"]
    rs = f["references"]["size"]
    ML = int(g["maxLength"]["value"])
    N = int(g["NULL_SLOT"]["value"])
    sid = (N + 1).bit_length() // 8
    ctx.ob(rule, "maxLength is the largest length_type value", ML == (1 << (8 * ls)) - 1, "Memory/StringNode.hpp",
           "maxLength=%d sizeof(length_type)=%d" % (ML, ls))
    ctx.ob(rule, "reference counter at least as wide as a slot id", rs >= sid and (N + 1) == 1 << (8 * sid), "Memory/StringNode.hpp",
           "sizeof(references_type)=%d, slot id %d byte(s): " % (rs, sid) +
           ("there can never be more references than slots" if rs >= sid else
            "a string shared by more than %d values wraps its reference count and is freed while in use" % ((1 << (8 * rs)) - 1)))
    ctx.ob(rule, "length field is unsigned", f["length"]["tk"].startswith("u") and f["references"]["tk"].startswith("u"), "Memory/StringNode.hpp", "")
    if L_expected is not None:
        ctx.ob(rule, "sizeof(length_type) == STRING_LENGTH_SIZE", ls == L_expected, "Memory/StringNode.hpp", "%d vs %d" % (ls, L_expected))


def r_len(ctx, prog):
    rule = "R-LEN"
    n = 0
    for name in ("StringNode::create", "StringNode::resize"):
        for fn in prog.q(name):
            lp = [p for p in fn.params if p["n"] == "length" or p["tk"] == "u64"]
            sites = []
            for i, st in fn.calls():
                if st["callee"]["q"].split("::")[-1] in ("allocate", "reallocate") and "Allocator" in st["callee"]["q"]:
                    sites.append((i, "allocation"))
            for i in fn.walk():
                st = fn.s(i)
                if st["k"] in P.EXPLICIT_CASTS and st.get("t", "").endswith("length_type"):
                    sites.append((i, "narrowing to length_type"))
            for i, what in sites:
                n += 1
                ok = False
                for cond, pol in fn.guards_of(i):
                    c = fn.s(fn.strip(cond, casts=True))
                    if c["k"] == "BinaryOperator" and c["op"] in ("<=", ">", "<", ">="):
                        a = fn.s(fn.strip(c["c"][0], casts=True))
                        b = fn.s(fn.strip(c["c"][1], casts=True))
                        names = [x.get("ref", {}).get("n") for x in (a, b)]
                        if "length" in names and "maxLength" in names:
                            la = names.index("length") == 0
                            op = c["op"]
                            # length <= maxLength true / length > maxLength false
                            good = (la and ((op == "<=" and pol) or (op == ">" and not pol))) or \
                                   (not la and ((op == ">=" and pol) or (op == "<" and not pol)))
                            if good:
                                ok = True
                # a narrowing dominated by a successful allocation that was itself guarded
                if not ok and what.startswith("narrowing"):
                    for cond, pol in fn.guards_of(i):
                        c = fn.s(fn.strip(cond, casts=True))
                        if c["k"] == "DeclRefExpr" and pol is True:
                            # if (node) ... : node non-null implies the guarded allocation ran
                            for j in fn.walk():
                                sj = fn.s(j)
                                if sj["k"] == "BinaryOperator" and sj["op"] == "=" and \
                                        fn.s(fn.strip(sj["c"][0]))["k"] == "DeclRefExpr" and \
                                        fn.s(fn.strip(sj["c"][0]))["ref"]["d"] == c["ref"]["d"]:
                                    r = fn.s(fn.strip(sj["c"][1], casts=True))
                                    if r["k"] == "CXXNullPtrLiteralExpr" or r.get("cv") == "0":
                                        g2 = [x for x in fn.guards_of(j)]
                                        ok = ok or bool(g2)
                ctx.ob(rule, "%s: %s under length <= maxLength" % (fn.short, what), ok, fn.loc(i),
                       "dominated by the length <= maxLength edge" if ok else
                       "%s is reachable with length > maxLength: the stored length is truncated modulo 2^(8*STRING_LENGTH_SIZE)" % what)
    ctx.floor(rule, "allocation/narrowing sites in StringNode", n, 4)


def r_grow(ctx, prog):
    rule = "R-GROW"
    g = {x["q"].split("::")[-1]: x for x in prog.globals if not x.get("dependent") and x.get("value") is not None}
    ML = int(g["maxLength"]["value"]) if "maxLength" in g else None
    init = int(g["initialCapacity"]["value"]) if "initialCapacity" in g else None
    fns = [f for f in prog.q("StringBuilder::append") if f.params and f.params[0]["t"] == "char"]
    if not fns or ML is None or init is None:
        ctx.brk(rule, "StringBuilder::append(char) / maxLength / initialCapacity not found")
        return
    fn = fns[0]
    shape = None
    for i, st in fn.calls():
        if st["callee"]["q"].endswith("ResourceManager::resizeString"):
            e = fn.s(fn.strip(st["args"][1], casts=True))
            if e["k"] == "BinaryOperator" and e["op"] == "+":
                a = fn.s(fn.strip(e["c"][0], casts=True))
                b = fn.s(fn.strip(e["c"][1], casts=True))
                if a["k"] == "BinaryOperator" and a["op"] == "*" and member_name(fn, a["c"][0]) == "size_":
                    shape = (fn.const(a["c"][1]), fn.const(e["c"][1]))
    if shape is None:
        ctx.ob(rule, "growth request is size_*m + a", None, fn.where, "resize request of StringBuilder::append not recognised")
        return
    m, a = shape
    # sequence n0 = init, n_{k+1} = m*n_k + a must hit maxLength exactly (for
    # m=2,a=1 and init = 2^j-1 all terms are 2^k-1, as is maxLength)
    closed = (m == 2 and a == 1 and (init & (init + 1)) == 0 and (ML & (ML + 1)) == 0 and ML >= init)
    ctx.ob(rule, "builder capacities 2^k-1 meet maxLength exactly", closed, fn.where,
           "initialCapacity=%d, request=size_*%s+%s, maxLength=%d: every capacity is 2^k-1 so the last one equals maxLength" % (init, m, a, ML)
           if closed else
           "initialCapacity=%d with growth size_*%s+%s never equals maxLength=%d: strings between the last capacity and maxLength are refused below the documented limit" % (init, m, a, ML))


def r_accw(ctx, prog):
    """Announced sizes of MessagePack headers (up to 4 bytes) are accumulated
    big-endian as x = (x << 8) | byte.  The accumulator must be at least 32
    bits wide, otherwise an announced length above the string limit wraps
    before the limit is checked."""
    rule = "R-ACCW"
    n = 0
    for fn in sorted(prog.fns.values(), key=lambda f: f.key):
        if not fn.cls.endswith("MsgPackDeserializer"):
            continue
        for i in fn.walk():
            st = fn.s(i)
            if st["k"] != "BinaryOperator" or st["op"] != "=":
                continue
            l = fn.s(fn.strip(st["c"][0], casts=True))
            if l["k"] != "DeclRefExpr":
                continue
            # rhs contains (l << 8)
            shl = None
            for j in fn.walk(st["c"][1]):
                sj = fn.s(j)
                if sj["k"] == "BinaryOperator" and sj["op"] == "<<" and fn.const(sj["c"][1]) == 8:
                    a = fn.s(fn.strip(sj["c"][0], casts=True))
                    if a["k"] == "DeclRefExpr" and a["ref"]["d"] == l["ref"]["d"]:
                        shl = j
            if shl is None:
                continue
            n += 1
            tk = l.get("tk", "")
            w = int(tk[1:]) if tk[:1] in "us" and tk[1:].isdigit() else 0
            ctx.ob(rule, "%s: size accumulator %s is at least 32 bits" % (fn.short, l["ref"]["n"]), w >= 32 and tk[0] == "u", fn.loc(i),
                   "accumulator type %s" % l.get("t") if w >= 32 else
                   "the announced size is accumulated in %s (%d bits): a header announcing a length above 2^%d wraps before "
                   "it is compared with the string limit, so an over-long string is stored truncated instead of being refused" % (l.get("t"), w, w))
    ctx.floor(rule, "size accumulators in MsgPackDeserializer", n, 2)


def r_poolcap(ctx, prog):
    """capacity_ is the extent of the table pools_ points to (the inline
    table or a heap block).  Every function of MemoryPoolList that re-seats
    X.pools_ also writes X.capacity_ on every path from that write to its
    exit (or before it, dominating it); otherwise the next addPool() indexes
    the new table with the old table's capacity."""
    rule = "R-POOLCAP"
    n = 0

    def member_writes(fn, name):
        out = []
        for i in fn.walk():
            st = fn.s(i)
            tgts = []
            if st["k"] == "BinaryOperator" and st["op"] == "=":
                tgts = [st["c"][0]]
            elif st["k"] in P.CALL_KINDS and st.get("callee", {}).get("q", "").split("::")[-1] in ("swap_", "swap"):
                tgts = list(st.get("args", []))
            for t in tgts:
                m = fn.s(fn.strip(t, casts=True))
                if m["k"] == "MemberExpr" and m.get("m") == name:
                    b = fn.s(fn.strip(m["c"][0], casts=True)) if m["c"] else {"k": "CXXThisExpr"}
                    base = "this" if b["k"] == "CXXThisExpr" else fn.text(fn.strip(m["c"][0], casts=True))
                    out.append((i, base))
        return out

    for fn in sorted(prog.fns.values(), key=lambda f: f.key):
        if fn.cfg is None or not fn.file.startswith("Memory/MemoryPoolList"):
            continue
        pw = member_writes(fn, "pools_")
        if not pw:
            continue
        cw = member_writes(fn, "capacity_")
        for (w, base) in pw:
            n += 1
            ok = False
            pb = fn.block_of(w)
            for (c, cbase) in cw:
                if cbase != base:
                    continue
                cb = fn.block_of(c)
                if pb is None or cb is None:
                    continue
                if fn.stmt_dominates(c, w):
                    ok = True
                elif cb[0] == pb[0] and cb[1] > pb[1]:
                    ok = True
                elif fn.cfg["exit"] not in fn.reach_from([pb[0]], avoid=(cb[0],)):
                    ok = True
            ctx.ob(rule, "%s: %s.pools_ and %s.capacity_ change together" % (fn.short, base, base), ok, fn.loc(w),
                   "" if ok else "%s.pools_ is re-seated here but %s.capacity_ keeps the extent of the previous table on some path to "
                   "the exit: after the table shrinks back to the inline pools, addPool() writes pools_[count_] beyond it: %s" %
                   (base, base, fn.text(w)))
    ctx.floor(rule, "writes to pools_ in MemoryPoolList", n, 6)
    ctx.doc(rule, r_poolcap.__doc__.strip().replace("\n", " "))


def run(ctx, prog):
    r_accw(ctx, prog)
    r_poolcap(ctx, prog)
    widths(ctx, prog)
    r_len(ctx, prog)
    r_grow(ctx, prog)


def run_global(ctx, progs, tier):
    matrix = GEOM_THOROUGH if tier == "thorough" else GEOM_QUICK
    variants = []
    for (s, c, i) in matrix:
        name = "geom-S%d-C%d-I%d" % (s, c, i)
        variants.append((name, "gnu++17", facts.D(SLOT_ID_SIZE=s, POOL_CAPACITY=c, INITIAL_POOL_COUNT=i)))
    dumps = facts.extract_matrix("d_geom.cpp", variants)
    ctx.count("R-GEOM:geometries", len(dumps))
    for (s, c, i) in matrix:
        name = "geom-S%d-C%d-I%d" % (s, c, i)
        p = P.Program(dumps[name])
        ctx.config = name
        geom_one(ctx, p, s, c, i)
        widths(ctx, p, L_expected=None)
    ctx.config = ""
    ctx.doc("R-GEOM", "inductive slot-id bound per geometry with clang-folded constants")
    ctx.doc("R-WIDTH", "type-level width facts per configuration")
    ctx.doc("R-LEN", "length check dominates allocation and narrowing")
    ctx.doc("R-GROW", "string builder growth meets maxLength exactly")
    ctx.doc("R-ACCW", "MessagePack size accumulators are at least 32 bits wide")
