"""C20 — the library keeps no mutable state outside documents, allocators and
caller buffers.

R-STATIC  every object with static storage duration declared under /repo/src
          (namespace scope, static members, function-local statics, also in
          uninstantiated templates) is (a) const-qualified with a constant
          initialiser and no mutable field, or (b) never written: every
          reference to it in any analysed function is a read (subscript /
          l-value-to-r-value), or its class has no data member at all (then
          handing out its address exposes no state).
R-MUT     no record declares a `mutable` field.
R-CONSTCAST every cast that removes const is in the frozen table with its
          reason.
R-EXT     every callee without a body under /repo/src is classified by a
          frozen table: reentrant / operates on caller objects / MT-unsafe.
R-RO      read-only entry points reach no write into document memory
          (purity.check_readonly).
"""
import re

from lib import prog as P
from rules import purity

# --- frozen tables ----------------------------------------------------------
# classes whose objects may live in static storage although not const, with
# the reason.  Checked, not trusted: the stated structural fact is verified.
STATELESS_OK = {
    "DefaultAllocator": "no data member (only virtual methods calling "
                        "malloc/free/realloc)",
}
USER_ALLOCATOR_WRAPPER = {
    # deprecated BasicJsonDocument<TAllocator>: the static wraps the *user's*
    # allocator object; C20 exempts allocators.  Verified: single field whose
    # type is the template parameter.
    "AllocatorAdapter::instance::instance": "wraps the user-supplied allocator "
                                            "of the deprecated BasicJsonDocument",
}

MT_UNSAFE = {
    "strtok", "rand", "srand", "localtime", "gmtime", "asctime", "ctime",
    "setlocale", "strerror", "getenv", "tmpnam", "strsignal", "readdir",
    "getpwnam", "getpwuid", "gethostbyname", "ttyname", "ecvt", "fcvt",
    "gcvt", "drand48", "lrand48", "mrand48", "l64a", "wcstombs", "mbstowcs",
    "mblen", "mbtowc", "wctomb", "atexit", "putenv", "setenv",
}
REENTRANT_C = {
    "malloc", "free", "realloc", "memcpy", "memmove", "memset", "memcmp",
    "strlen", "strcmp", "strncmp", "strcpy", "memchr", "abort", "__assert_fail",
    "strcmp_P", "strncmp_P", "strlen_P", "memcpy_P", "pgm_read_byte",
    "pgm_read_ptr", "pgm_read_dword", "pgm_read_float", "pgm_read_double",
    "convertFlashToPtr", "convertPtrToFlash", "operator new",
}
# user-supplied / caller-owned objects: methods invoked on the caller's object
CALLER_OBJECT_PREFIXES = (
    "std::", "__gnu_cxx::", "String::", "Stream::", "Print::", "Printable::",
    "DrvReader::", "DrvWriter::", "DrvStream::", "DrvPrint::", "DrvAlloc::",
    "ArduinoJson::Allocator::",  # virtual, user may override; documents own one
    "StringSumHelper::",
)


def _bases_fieldless(prog, rec_q, seen=None):
    recs = [r for r in prog.records if r["q"] == rec_q and not r["dependent"]]
    if not recs:
        return None
    r = recs[0]
    if r["fields"]:
        return False
    for b in r["bases"]:
        bq = b.split("<")[0]
        x = _bases_fieldless(prog, bq)
        if x is False:
            return False
        if x is None:
            return None
    return True


def global_uses(prog, q):
    """All references to global q: (fn, stmt id, 'read'|'write'|'addr'|...)."""
    out = []
    for fn in prog.fns.values():
        for i in fn.walk():
            st = fn.s(i)
            if st["k"] != "DeclRefExpr" or st["ref"]["k"] != "global":
                continue
            if st["ref"].get("q") != q:
                continue
            out.append((fn, i, classify_use(fn, i)))
    return out


def writes_via_derived(fn, q, via_calls=()):
    """Definite writes through local pointers derived from global q (or from
    the result of a call to one of via_calls, functions that return a pointer
    into q).  Returns [(stmt id, text)]."""
    seeds = {}
    changed = True
    rounds = 0

    def mentions(e):
        for j in fn.walk(e):
            s2 = fn.s(j)
            if via_calls and s2["k"] in P.CALL_KINDS and s2.get("callee", {}).get("key") in via_calls:
                return True
            if s2["k"] == "DeclRefExpr":
                if s2["ref"]["k"] == "global" and s2["ref"].get("q") == q:
                    return True
                if s2["ref"]["d"] in seeds:
                    return True
        return False
    while changed and rounds < 6:
        changed = False
        rounds += 1
        for i in fn.walk():
            st = fn.s(i)
            if st["k"] == "DeclStmt":
                for d in st["decls"]:
                    if d["d"] in seeds or "init" not in d:
                        continue
                    if ("*" in d["t"] or "&" in d["t"]) and purity.nonconst_pointee(d["t"]) \
                            and mentions(d["init"]):
                        seeds[d["d"]] = ("global " + q.split("::")[-1], "&" in d["t"])
                        changed = True
            elif st["k"] == "BinaryOperator" and st["op"] == "=":
                l = fn.s(fn.strip(st["c"][0]))
                if l["k"] == "DeclRefExpr" and l["ref"]["k"] == "local" and \
                        l["ref"]["d"] not in seeds and l.get("tk") == "ptr" and \
                        purity.nonconst_pointee(l.get("t", "")) and mentions(st["c"][1]):
                    seeds[l["ref"]["d"]] = ("global " + q.split("::")[-1], False)
                    changed = True
    out = []
    if not seeds:
        return out
    for i in fn.walk():
        st = fn.s(i)
        tgt = None
        if st["k"] in ("BinaryOperator", "CompoundAssignOperator") and \
                st["op"] in ("=", "+=", "-=", "*=", "/=", "%=", "|=", "&=", "^=", "<<=", ">>="):
            tgt = st["c"][0]
        elif st["k"] == "UnaryOperator" and st["op"] in ("++", "--"):
            tgt = st["c"][0]
        if tgt is None:
            continue
        r = purity.lvalue_root(fn, tgt, seeds)
        if r[0] == "doc":
            out.append((i, fn.text(i)))
    return out


def writes_via_param(prog, callee, idx, depth=0):
    """Does callee write through its idx-th (pointer) parameter?  Returns a
    description or None.  Follows the parameter into further library calls."""
    if callee is None or idx >= len(callee.params) or depth > 3:
        return None
    pd = callee.params[idx]["d"]
    seeds = {pd: ("parameter " + callee.params[idx]["n"], "&" in callee.params[idx]["t"])}
    # locals derived from the parameter
    for _ in range(3):
        for i in callee.walk():
            st = callee.s(i)
            if st["k"] == "DeclStmt":
                for d in st["decls"]:
                    if d["d"] not in seeds and "init" in d and ("*" in d["t"] or "&" in d["t"]) and purity.nonconst_pointee(d["t"]):
                        if any(callee.s(j)["k"] == "DeclRefExpr" and callee.s(j)["ref"]["d"] in seeds for j in callee.walk(d["init"])):
                            seeds[d["d"]] = ("parameter " + callee.params[idx]["n"], "&" in d["t"])
    for i in callee.walk():
        st = callee.s(i)
        tgt = None
        if st["k"] in ("BinaryOperator", "CompoundAssignOperator") and st["op"].endswith("=") and st["op"] not in ("==", "!=", "<=", ">="):
            tgt = st["c"][0]
        elif st["k"] == "UnaryOperator" and st["op"] in ("++", "--"):
            tgt = st["c"][0]
        if tgt is not None:
            r = purity.lvalue_root(callee, tgt, seeds)
            if r[0] == "doc":
                return "%s: %s" % (callee.short, callee.text(i))
        if st["k"] in P.CALL_KINDS and "callee" in st:
            nm = st["callee"]["q"].split("::")[-1]
            args = st.get("args", [])
            for k, a in enumerate(args):
                sa = callee.s(callee.strip(a, casts=True))
                if sa["k"] == "DeclRefExpr" and sa["ref"]["d"] in seeds:
                    if nm in ("memcpy", "memmove", "memset", "strcpy", "read", "readBytes") and k == 0:
                        return "%s: %s" % (callee.short, callee.text(i))
                    sub = prog.fns.get(st["callee"]["key"])
                    w = writes_via_param(prog, sub, k, depth + 1)
                    if w:
                        return w
    return None


def classify_use(fn, i):
    """How is l-value i used?  Walk up the parents."""
    cur = i
    for a in fn.ancestors(i):
        st = fn.s(a)
        k = st["k"]
        if k in ("ParenExpr", "ExprWithCleanups", "MaterializeTemporaryExpr",
                 "ConstantExpr"):
            cur = a
            continue
        if k == "ImplicitCastExpr":
            ck = st.get("ck")
            if ck == "LValueToRValue":
                return "read"
            if ck in ("ArrayToPointerDecay", "NoOp", "DerivedToBase",
                      "UncheckedDerivedToBase", "BitCast"):
                cur = a
                continue
            return "other:" + str(ck)
        if k == "ArraySubscriptExpr":
            cur = a
            continue
        if k == "MemberExpr":
            cur = a
            continue
        if k in ("BinaryOperator", "CompoundAssignOperator"):
            op = st["op"]
            if op in ("=", "+=", "-=", "*=", "/=", "%=", "|=", "&=", "^=",
                      "<<=", ">>="):
                if st["c"][0] == cur:
                    return "write"
                sc = fn.s(cur)
                if sc.get("tk") == "ptr" and purity.nonconst_pointee(sc.get("t", "")):
                    return "escape:non-const pointer assigned"
                return "read"
            if op in ("+", "-") and st.get("tk") == "ptr":
                # pointer arithmetic on a decayed array: keep climbing
                cur = a
                continue
            if op == "=" or op == ",":
                pass
            return "read"
        if k == "UnaryOperator":
            if st["op"] in ("++", "--"):
                return "write"
            if st["op"] == "&":
                return "addr"
            if st["op"] == "*":
                cur = a
                continue
            return "read"
        if k in P.CALL_KINDS:
            # passed to a function: by value after decay of a const array is
            # a read of the pointer; anything else escapes
            t = fn.s(cur).get("t", "")
            if st.get("obj") == cur or (st["c"] and st["c"][0] == cur):
                callee = st.get("callee", {})
                if callee.get("const"):
                    return "read"
                return "method:" + callee.get("q", "?")
            if t.startswith("const ") and ("*" in t):
                return "read"
            args = st.get("args", [])
            if cur in args and "callee" in st:
                return "escape:arg%d:%s" % (args.index(cur), st["callee"]["key"])
            return "escape:" + st.get("callee", {}).get("q", "?")
        if k in ("ReturnStmt",):
            t = fn.s(cur).get("t", "")
            if t.startswith("const ") and "*" in t:
                return "read"
            return "escape:return"
        if k in ("DeclStmt", "CompoundStmt", "IfStmt", "WhileStmt", "ForStmt",
                 "SwitchStmt", "DoStmt"):
            sc = fn.s(cur)
            if sc.get("tk") == "ptr" and purity.nonconst_pointee(sc.get("t", "")):
                return "escape:non-const pointer stored in a local"
            return "read"
        if k == "UnaryExprOrTypeTraitExpr":
            return "unevaluated"
        if k in P.EXPLICIT_CASTS:
            cur = a
            continue
        if k == "InitListExpr":
            t = fn.s(cur).get("t", "")
            return "read" if t.startswith("const ") or fn.s(cur)["k"] == "ImplicitCastExpr" else "escape:init"
        return "other:" + k
    return "read"


def run(ctx, prog):
    rule = "R-STATIC"
    ctx.doc(rule, "every static-storage object under /repo/src is const with "
            "constant initialiser, or provably never written, or stateless")
    seen = {}
    for g in prog.globals:
        short = g["q"].replace("ArduinoJson::detail::", "").replace("ArduinoJson::", "")
        key = short
        seen.setdefault(key, []).append(g)
    n_decl = 0
    for short, gl in sorted(seen.items()):
        # one obligation per distinct declaration name; all instantiations
        # and the template pattern must satisfy it
        n_decl += 1
        g0 = gl[0]
        where = "%s:%d" % (P.relfile(g0["file"]), g0["line"])
        verdict = True
        why = []
        nontrivial = False
        for g in gl:
            t = g["t"]
            sp = g.get("spelling") or ""
            if sp and "/extras/tests/Helpers/" in sp:
                # declared by the PROGMEM macro of the repo's Arduino *test stub*
                # (extras/tests/Helpers/avr/pgmspace.h), not by library source:
                # the library's own macro declares `static type const name[]`
                why.append("declaration text comes from the Arduino test stub (%s), not from /repo/src" % sp.split("/extras/")[-1])
                continue
            if g.get("tls"):
                verdict = False
                why.append("thread_local object is library-kept state")
                break
            if not g.get("def", True) and not g.get("hasinit"):
                # a declaration only (e.g. is_convertible::from_ used in an
                # unevaluated operand) occupies no storage
                why.append("declaration only")
                continue
            isref = t.rstrip().endswith("&")
            if g["const"] and not g.get("rec_hasmutable"):
                if g.get("dependent"):
                    why.append("const (template pattern)")
                    continue
                if g.get("constinit") is False and not g.get("staticlocal"):
                    verdict = None
                    why.append("const but dynamically initialised at namespace scope")
                    continue
                why.append("const, constant-initialised" if g.get("constinit") is not False else "const static local")
                continue
            # not const: must be never written
            nontrivial = True
            if short in USER_ALLOCATOR_WRAPPER:
                recs = [r for r in prog.records if r["q"].endswith("AllocatorAdapter")]
                okw = bool(recs) and all(len(r["fields"]) == 1 for r in recs)
                if okw:
                    why.append("exempt: " + USER_ALLOCATOR_WRAPPER[short])
                    continue
                verdict = False
                why.append("AllocatorAdapter gained state beyond the user allocator")
                break
            if g.get("dependent"):
                inst = [h for h in gl if not h.get("dependent") and
                        h["line"] == g["line"] and h["file"] == g["file"]]
                if inst:
                    why.append("template pattern, decided on its %d instantiation(s)" % len(inst))
                    continue
                verdict = None
                why.append("non-const static in an uninstantiated template: "
                           "no instantiation to analyse")
                continue
            uses = global_uses(prog, g["q"])
            rec = (g.get("rec") or "").split("::")[-1]
            stateless = False
            if rec:
                fl = _bases_fieldless(prog, g.get("rec"))
                stateless = fl is True
            writes = [(fn, i, u) for fn, i, u in uses if u == "write"]
            esc = [(fn, i, u) for fn, i, u in uses
                   if u not in ("read", "write", "unevaluated")]
            if writes:
                fn, i, u = writes[0]
                verdict = False
                where = fn.loc(i)
                why.append("written in %s: %s" % (fn.short, fn.text(fn.parent(i) or i)))
                break
            if stateless:
                if rec in STATELESS_OK:
                    why.append("object of class %s: %s; %d reference(s)" %
                               (rec, STATELESS_OK[rec], len(uses)))
                else:
                    why.append("object of a class without data members; %d reference(s)" % len(uses))
                continue
            if esc:
                fn, i, u = esc[0]
                dw = []
                for efn in set(x[0] for x in esc):
                    dw += [(efn, a, b) for a, b in writes_via_derived(efn, g["q"])]
                if not dw:
                    # the address is returned as a pointer to non-const: follow it into the callers
                    for efn, ei, u in esc:
                        rt = efn.d.get("ret", "") or ""
                        in_ret = any(efn.s(a_)["k"] == "ReturnStmt" for a_ in efn.ancestors(ei))
                        if in_ret and "*" in rt and purity.nonconst_pointee(rt):
                            for cf in prog.fns.values():
                                if any(st_["callee"]["key"] == efn.key for _i, st_ in cf.calls()):
                                    for a, b in writes_via_derived(cf, g["q"], via_calls=(efn.key,)):
                                        dw.append((cf, a, "%s (through the pointer %s returns)" % (b, efn.short)))
                if not dw:
                    for efn, ei, u in esc:
                        if u.startswith("escape:arg"):
                            _, argn, ckey = u.split(":", 2)
                            w = writes_via_param(prog, prog.fns.get(ckey), int(argn[3:]))
                            if w:
                                dw.append((efn, ei, "its address is passed to a function that writes through it (%s)" % w))
                if dw:
                    efn, a, b = dw[0]
                    verdict = False
                    where = efn.loc(a)
                    why.append("written through a pointer derived from it in %s: %s" % (efn.short, b))
                    break
                if rec and not stateless:
                    verdict = False
                    where = fn.loc(i)
                    why.append("non-const object with data members whose address "
                               "leaves %s (%s): mutable library state" % (fn.short, u))
                    break
                verdict = None
                where = fn.loc(i)
                why.append("use not understood in %s: %s" % (fn.short, u))
                continue
            if not uses and not g.get("staticlocal"):
                why.append("never referenced")
                continue
            why.append("non-const but only read (%d reference(s))" % len(uses))
        ctx.ob(rule, short, verdict, where, "; ".join(sorted(set(why))),
               nontrivial=nontrivial)
    ctx.floor(rule, "declarations", n_decl, 20)
    # the instances confirmed by hand must be present
    names = set(seen)
    for must in ("DeserializationError::c_str::messages",
                 "DefaultAllocator::instance::allocator",
                 "FloatTraits::positiveBinaryPowersOfTen::factors",
                 "FloatTraits::negativeBinaryPowersOfTen::factors",
                 "NULL_SLOT", "StringNode::maxLength"):
        if must not in names:
            ctx.brk(rule, "static object %s not found (anchor vanished)" % must)

    # local statics inside function bodies show up as DeclStmt static too:
    n_static_decl = 0
    for fn in prog.fns.values():
        for i in fn.walk():
            st = fn.s(i)
            if st["k"] == "DeclStmt":
                for d in st["decls"]:
                    if d.get("static"):
                        n_static_decl += 1
                        q = fn.q + "::" + d["n"]
                        if not any(g["q"] == q for g in prog.globals):
                            ctx.brk(rule, "static local %s not in the global table" % q)
    ctx.count(rule + ":static_local_decls", n_static_decl)

    # ---- R-MUT
    rule = "R-MUT"
    ctx.doc(rule, "no record under /repo/src declares a mutable field")
    nrec = 0
    bad = []
    for r in prog.records:
        nrec += 1
        for f in r["fields"]:
            if f.get("mutable"):
                bad.append((r, f))
    if bad:
        for r, f in bad:
            ctx.ob(rule, "%s::%s" % (r["q"].split("::")[-1], f["n"]), False,
                   "%s:%d" % (P.relfile(r["file"]), f["line"]),
                   "mutable field: const access may write it")
    ctx.ob(rule, "no mutable field in %s" % "any record", not bad if not bad else True,
           "", "%d records inspected" % nrec, nontrivial=False)
    ctx.floor(rule, "records", nrec, 300)

    # ---- R-CONSTCAST
    rule = "R-CONSTCAST"
    ctx.doc(rule, "every cast that removes const from a pointer/reference is "
            "one of the frozen read-only forwards")
    ncasts = 0
    for fn in prog.fns.values():
        for i in fn.walk():
            st = fn.s(i)
            if st["k"] not in P.EXPLICIT_CASTS:
                continue
            frm = st.get("from", "")
            to = st.get("t", "")
            if "*" not in to and "&" not in st.get("written", ""):
                continue
            if not _drops_const(frm, st.get("written", to)):
                continue
            ncasts += 1
            inst = "%s: (%s) <- %s" % (fn.short, _norm(st.get("written", to)), _norm(frm))
            ok, why = _constcast_allowed(fn, i, st)
            ctx.ob(rule, inst, ok, fn.loc(i), why)
    ctx.count(rule + ":const_dropping_casts", ncasts)

    # ---- R-EXT
    rule = "R-EXT"
    ctx.doc(rule, "external callees classified: reentrant C / caller-owned "
            "object method / MT-unsafe (refuted) / unclassified (broken)")
    cg, ext = prog.callgraph()
    allext = {}
    for k, s in ext.items():
        for e in s:
            allext.setdefault(e, []).append(k)
    n_ext = 0
    for e, callers in sorted(allext.items()):
        n_ext += 1
        base = e.split("::")[-1]
        fn = prog.fns[sorted(callers)[0]]
        if base in MT_UNSAFE and (e == base or e == "std::" + base):
            ctx.ob(rule, e, False, fn.where, "MT-unsafe C function called from %s" % fn.short)
        elif e in REENTRANT_C or base in REENTRANT_C and "::" not in e:
            ctx.ob(rule, e, True, fn.where, "reentrant C function", nontrivial=True)
        elif e.startswith(CALLER_OBJECT_PREFIXES):
            ctx.ob(rule, e, True, fn.where, "method/function on a caller-owned object", nontrivial=False)
        elif e.startswith("ArduinoJson::"):
            # declared in the library, no body in any driver: pure virtual or
            # defaulted; implicit special members
            ctx.ob(rule, e, True, fn.where, "library declaration without body (implicit/defaulted/pure virtual)", nontrivial=False)
        elif re.match(r"^(operator|is(nan|inf)|f?abs|pow|floor|ceil|fmod|log10)", base):
            ctx.ob(rule, e, True, fn.where, "pure math/operator", nontrivial=False)
        else:
            ctx.ob(rule, e, None, fn.where, "unclassified external callee (called from %s)" % fn.short)
    ctx.floor(rule, "external callees", n_ext, 10)

    # ---- inline asm
    for fn in prog.fns.values():
        for i in fn.walk():
            if fn.s(i).get("asm"):
                ctx.ob("R-ASM", fn.short, None, fn.loc(i), "inline assembly is opaque to the analysis")

    # ---- R-RO
    purity.check_readonly(ctx, prog, "R-RO", want_alloc=False, want_writes=True)
    ctx.doc("R-RO", "read-only entry points (const views, serialize/measure, "
            "comparison, as/is/size/nesting) reach no write into document-typed memory")


def _norm(t):
    return t.replace("ArduinoJson::detail::", "").replace("ArduinoJson::", "")


def _drops_const(frm, to):
    """pointer/reference cast from const pointee to non-const pointee."""
    def pointee_const(t):
        t = t.strip()
        if "*" in t:
            head = t[:t.rindex("*")].strip()
        elif "&" in t:
            head = t[:t.rindex("&")].strip()
        else:
            return None
        return head.startswith("const ") or head.endswith(" const") or " const " in head + " "
    a, b = pointee_const(frm), pointee_const(to)
    if a is None or b is None:
        return False
    return a and not b


def _constcast_allowed(fn, i, st):
    """A const-removing cast is harmless iff its result is used only as the
    object of a call to a function that (transitively) writes nothing into
    document memory — the repo's 'const overload forwards to the non-const
    accessor' idiom.  Anything else is not understood."""
    prog = fn.prog
    cur = i
    for a in fn.ancestors(i):
        sa = fn.s(a)
        if sa["k"] in ("ParenExpr", "ImplicitCastExpr"):
            cur = a
            continue
        if sa["k"] == "MemberExpr":
            cur = a
            continue
        if sa["k"] == "CXXMemberCallExpr" and "callee" in sa:
            key = sa["callee"]["key"]
            if key not in prog.fns:
                return None, "forwarded-to function has no body"
            W, A = _summ(prog)
            hit = [k for k in prog.reachable([key]) if k in W]
            if hit:
                t = prog.fns[hit[0]]
                return False, ("const method casts away const and reaches a "
                               "write: %s (%s)" % (t.short, W[hit[0]][0][1]))
            return True, ("const overload forwards to %s, which reaches no "
                          "write into document memory" % prog.fns[key].short)
        break
    return None, "cast removes const and its use is not the forwarding idiom"


_summ_cache = {}


def _summ(prog):
    if id(prog) not in _summ_cache:
        _summ_cache[id(prog)] = purity.summarize(prog)
    return _summ_cache[id(prog)]
