"""R-CBS — clear-before-set typestate (C04.1, C01).

A VariantData may be given a new value only while its tag is Null (the
library asserts this in debug builds: "must call clear() first"); otherwise
children / string references / extension slots stay attached to a value whose
tag says otherwise: the pool leaks and later traversals disagree with the
tree model.

For every call of a state setter (setBoolean, setInteger, setFloat, setString,
setLinkedString, setOwnedString, setRawString, toArray, toObject) the receiver
must be, on every path, in state NULL:
  fresh     result of allocVariant()/addElement()/addMember() in this function,
            or placement-new'ed;
  cleared   clear()/VariantData::clear() was called on it and no setter since;
  isNull    on the true edge of isNull();
  contract  a parameter / `this` of a function that *requires null*: the
            requirement is inferred (a setter is reachable on it without a
            local reason) and every call site is checked in turn, up to a
            function that must establish NULL itself.
"""
from lib import prog as P
from lib import typestate

SETTERS = ("setBoolean", "setInteger", "setFloat", "setString", "setLinkedString",
           "setOwnedString", "setRawString", "toArray", "toObject")
FRESH = ("ResourceManager::allocVariant", "ArrayData::addElement", "ObjectData::addMember")
NULL, SET, UNK = "N", "S", "U"


def is_vd(t):
    return (t or "").split("::")[-1] in ("VariantData",)


def root_of(fn, i, depth=0):
    """Receiver root: decl id of a local/param, 'this', or None."""
    if i is None or i < 0 or depth > 12:
        return None
    i = fn.strip(i, casts=True)
    st = fn.s(i)
    k = st["k"]
    if k == "DeclRefExpr" and st["ref"]["k"] in ("local", "parm"):
        return st["ref"]["d"]
    if k == "CXXThisExpr":
        return "this"
    if k == "UnaryOperator" and st["op"] in ("*", "&"):
        return root_of(fn, st["c"][0], depth + 1)
    if k == "CXXOperatorCallExpr" and st.get("callee", {}).get("q", "").split("::")[-1] in ("operator->", "operator*"):
        return root_of(fn, st["args"][0], depth + 1)
    if k == "CXXMemberCallExpr" and st.get("callee", {}).get("q", "").split("::")[-1] in ("ptr",):
        return root_of(fn, st["obj"], depth + 1)
    if k == "MemberExpr" and st.get("m") == "variant":
        return root_of(fn, st["c"][0], depth + 1)
    return None


def setter_receiver(fn, i):
    """(root, name) if call i is a non-static VariantData setter."""
    st = fn.s(i)
    if st["k"] != "CXXMemberCallExpr" or "callee" not in st:
        return None
    c = st["callee"]
    if c.get("static") or not (c.get("cls") or "").endswith("VariantData"):
        return None
    nm = c["q"].split("::")[-1]
    if nm not in SETTERS:
        return None
    return (root_of(fn, st.get("obj")), nm)


def vd_params(fn):
    out = []
    for k, p in enumerate(fn.params):
        if is_vd(p.get("tr")) and ("*" in p["t"] or "&" in p["t"]) and not p["t"].startswith("const "):
            out.append((k, p))
    return out


class Analysis(object):
    def __init__(self, prog):
        self.prog = prog
        self.needs = {}      # fn key -> set of roots ('this' or param index) that must be NULL at entry
        self.sites = {}

    def run_fn(self, fn, assume_null):
        """assume_null: roots (decl id / 'this') taken as NULL at entry.
        Returns (violations [(stmt, root, why)], entry_roots_needed set)."""
        prog = self.prog
        params = {p["d"]: k for k, p in vd_params(fn)}
        init = tuple(sorted((("this" if r == "this" else r), NULL) for r in assume_null))
        needed = set()
        viol = []

        def get(state, r):
            for k, v in state:
                if k == r:
                    return v
            return "E" if (r == "this" or r in params) else UNK   # E = as at entry

        def put(state, r, v):
            d = dict(state)
            d[r] = v
            return tuple(sorted(d.items(), key=lambda kv: str(kv[0])))

        def transfer(fn_, e, state):
            st = fn_.s(e)
            k = st["k"]
            if k == "DeclStmt":
                for d in st["decls"]:
                    if "init" not in d:
                        continue
                    src = fn_.s(fn_.strip(d["init"], casts=True))
                    hops = 0
                    while src["k"] == "CXXConstructExpr" and len(src.get("args", [])) == 1 and hops < 3:
                        # copy/move construction from the call result (pre-C++17 AST)
                        src = fn_.s(fn_.strip(src["args"][0], casts=True))
                        hops += 1
                    v = UNK
                    if src["k"] in P.CALL_KINDS and src.get("callee", {}).get("q", "").endswith(FRESH):
                        v = NULL
                    elif src["k"] in P.CALL_KINDS and src.get("callee", {}).get("q", "").split("::")[-1] in ("getOrCreateData", "getData") and src.get("args"):
                        # data pointer of an API object: remember the alias
                        ar = root_of(fn_, src["args"][0])
                        v = UNK
                        if ar is not None:
                            state = put(state, ("alias", d["d"]), ar)
                    elif src["k"] in P.CALL_KINDS or src["k"] == "ConditionalOperator":
                        v = UNK
                    else:
                        r0 = root_of(fn_, d["init"])
                        v = get(state, r0) if r0 is not None else UNK
                    state = put(state, d["d"], v)
                return (state,)
            if k == "BinaryOperator" and st["op"] == "=":
                l = fn_.s(fn_.strip(st["c"][0], casts=True))
                if l["k"] == "DeclRefExpr" and l["ref"]["k"] in ("local", "parm") and (is_vd(l.get("tr")) or "Slot" in l.get("t", "")):
                    src = fn_.s(fn_.strip(st["c"][1], casts=True))
                    v = NULL if (src["k"] in P.CALL_KINDS and src.get("callee", {}).get("q", "").endswith(FRESH)) else UNK
                    if src["k"] == "CXXNullPtrLiteralExpr" or src.get("cv") == "0" or src["k"] == "GNUNullExpr":
                        v = NULL   # no object at all: nothing can be set through it
                    return (put(state, l["ref"]["d"], v),)
                return (state,)
            if k in P.CALL_KINDS and "callee" in st:
                q = st["callee"]["q"]
                nm = q.split("::")[-1]
                # clear() of an API object clears the data it designates
                if nm == "clear" and not (st["callee"].get("cls") or "").endswith("VariantData") and "obj" in st:
                    xr = root_of(fn_, st["obj"])
                    if xr is not None:
                        for k2, v2 in state:
                            if isinstance(k2, tuple) and k2[0] == "alias" and v2 == xr:
                                state = put(state, k2[1], NULL)
                    return (state,)
                # clear
                if nm == "clear" and (st["callee"].get("cls") or "").endswith("VariantData"):
                    if st["callee"].get("static"):
                        r = root_of(fn_, st["args"][0]) if st.get("args") else None
                    else:
                        r = root_of(fn_, st.get("obj"))
                    if r is not None:
                        return (put(state, r, NULL),)
                    return (state,)
                sr = setter_receiver(fn_, e)
                if sr is not None:
                    r, name = sr
                    if r is not None:
                        return (put(state, r, SET),)
                    return (state,)
                # callee with a requires-null contract
                callee = prog.fns.get(st["callee"]["key"])
                if callee is not None:
                    need = self.needs.get(callee.key, ())
                    for kk in need:
                        if kk == "this":
                            r = root_of(fn_, st.get("obj")) if "obj" in st else ("this" if not st["callee"].get("static") else None)
                        else:
                            args = st.get("args", [])
                            r = root_of(fn_, args[kk]) if kk < len(args) else None
                        if r is not None:
                            state = put(state, r, SET)
                return (state,)
            return (state,)

        def branch(fn_, cond, pol, state):
            if isinstance(cond, tuple):
                return state
            i = fn_.strip(cond, casts=True)
            st = fn_.s(i)
            neg = False
            while st["k"] == "UnaryOperator" and st["op"] == "!":
                neg = not neg
                i = fn_.strip(st["c"][0], casts=True)
                st = fn_.s(i)
            if st["k"] in P.CALL_KINDS and st.get("callee", {}).get("q", "").endswith("VariantData::isNull"):
                if st["callee"].get("static"):
                    r = root_of(fn_, st["args"][0]) if st.get("args") else None
                else:
                    r = root_of(fn_, st.get("obj")) if "obj" in st else "this"
                if r is not None and (pol != neg):
                    return put(state, r, NULL)
            return state

        def check(fn_, e, state):
            st = fn_.s(e)
            if st["k"] not in P.CALL_KINDS or "callee" not in st:
                return None
            sr = setter_receiver(fn_, e)
            targets = []
            if sr is not None:
                targets.append((sr[0], sr[1]))
            else:
                callee = prog.fns.get(st["callee"]["key"])
                if callee is not None:
                    for kk in self.needs.get(callee.key, ()):
                        if kk == "this":
                            r = root_of(fn_, st.get("obj")) if "obj" in st else ("this" if not st["callee"].get("static") else None)
                        else:
                            args = st.get("args", [])
                            r = root_of(fn_, args[kk]) if kk < len(args) else None
                        targets.append((r, callee.short))
            for r, name in targets:
                if r is None:
                    return "receiver of %s not understood" % name
                v = get(state, r)
                if v == NULL:
                    continue
                if v == "E":
                    needed.add("this" if r == "this" else params[r])
                    continue
                return "%s on a value that is %s" % (name, "already set in this function" if v == SET else "not known to be null")
            return None

        reports, _exit, err = typestate.analyse(fn, init, transfer, branch, check)
        return reports, needed, err


def run(ctx, prog, rule="R-CBS"):
    an = Analysis(prog)
    # candidate functions: those that call a setter or (later) a contracted callee
    funcs = sorted(prog.fns.values(), key=lambda f: f.key)
    relevant = set()
    for fn in funcs:
        for i, st in fn.calls():
            if setter_receiver(fn, i) is not None:
                relevant.add(fn.key)
                break
    # contract inference to a fixed point
    changed = True
    rounds = 0
    results = {}
    while changed and rounds < 8:
        changed = False
        rounds += 1
        for key in sorted(relevant):
            fn = prog.fns[key]
            reports, needed, err = an.run_fn(fn, ())
            results[key] = (reports, err)
            if needed and set(needed) != set(an.needs.get(key, ())):
                an.needs[key] = tuple(sorted(set(needed) | set(an.needs.get(key, ())), key=str))
                changed = True
        # callers of contracted functions become relevant
        cg, _ = prog.callgraph()
        for key, callees in cg.items():
            if key not in relevant and any(c in an.needs for c in callees):
                relevant.add(key)
                changed = True
    nsites = 0
    by_name = {}
    for key in sorted(relevant):
        fn = prog.fns[key]
        reports, err = results.get(key, ([], None))
        if key not in results:
            reports, needed, err = an.run_fn(fn, ())
        if err:
            ctx.ob(rule, "%s: analysed" % fn.short, None, fn.where, err)
        ok = not reports
        cur = by_name.setdefault(fn.short, [True, fn.where, "", 0])
        nset = sum(1 for i, st in fn.calls() if setter_receiver(fn, i) is not None)
        cur[3] += nset
        nsites += nset
        if reports and cur[0]:
            e, s, msg, wit = reports[0]
            cur[0] = False
            cur[1] = fn.loc(e)
            cur[2] = "%s: %s (path through blocks %s)" % (fn.text(e), msg, wit)
    for name, (ok, where, why, nset) in sorted(by_name.items()):
        contract = ""
        keys = [k for k in relevant if prog.fns[k].short == name and k in an.needs]
        if keys:
            contract = "requires null on %s (checked at its call sites)" % ",".join(str(x) for x in an.needs[keys[0]])
        ctx.ob(rule, "%s: values are null when set" % name, ok, where,
               why if not ok else ("%d setter call(s); %s" % (nset, contract or "null established locally")))
    ctx.floor(rule, "setter call sites", nsites, 30)
    ctx.count(rule + ":contracted_functions", len(an.needs))
    ctx.doc(rule, "a VariantData is null (fresh, cleared, isNull-tested or by inferred contract) whenever a state setter is called on it")
