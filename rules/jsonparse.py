"""Structural rules about the JSON deserializer shared by C01, C03, C10.

R-RESET    doDeserialize: parse() is dominated by clear() of the destination.
R-NUMBUF   every store into JsonDeserializer::buffer_ stays inside it, and the
           documented limit (extent-1 characters) is reached exactly
           (interval interpretation of parseNumericValue).
R-WS       whitespace discipline: every structural token test (eat) and every
           key parse happens right after a successful skipSpacesAndComments()
           with nothing consumed in between (forward typestate).
R-CLOSER   a container routine returns Ok only on the true edge of eat(closer)
           for its own closer; quoted-string routines only through the
           c == stopChar exit.
R-PROGRESS an unquoted key consumes at least one character before Ok.
R-WHORET   who may return which code: TooDeep only under reached(), NoMemory
           only on an allocation-failure edge, EmptyInput only in
           skipSpacesAndComments/parse, IncompleteInput only on a 'character
           is NUL' edge.
R-OPTGATE  comments / NaN / Infinity code exists exactly when the option is on.
R-VALIDAFTER a routine of the JSON reader that appends to the string builder
           returns Ok only after isValid() held *after the last append*
           (forward typestate: append -> dirty, isValid() true edge ->
           checked; `return Ok` while dirty is the violation): a failed
           growth of the builder is otherwise reported as success and the
           caller uses a null string node.
"""
from lib import absint, typestate
from lib import prog as P


def jd(prog, name):
    return sorted(prog.q("JsonDeserializer::" + name), key=lambda f: f.key)


def is_call(fn, i, *names):
    st = fn.s(i)
    return st["k"] in P.CALL_KINDS and "callee" in st and st["callee"]["q"].split("::")[-1] in names and \
        "JsonDeserializer" in st["callee"]["q"]


def eat_char(fn, i):
    st = fn.s(i)
    if is_call(fn, i, "eat") and st.get("args"):
        return fn.const(st["args"][0])
    return None


def returns_code(fn, ret, name):
    st = fn.s(ret)
    if st["k"] != "ReturnStmt" or not st["c"]:
        return False
    r = fn.s(fn.strip(st["c"][0], casts=True))
    return r["k"] == "DeclRefExpr" and r["ref"]["k"] == "enumerator" and r["ref"]["n"] == name


def r_reset(ctx, prog, rule="R-RESET"):
    n = 0
    for fn in sorted(prog.q("detail::doDeserialize"), key=lambda f: f.key):
        n += 1
        parse = [i for i, st in fn.calls() if st["callee"]["q"].endswith("Deserializer::parse")]
        clears = [i for i, st in fn.calls() if st["callee"]["q"].split("::")[-1] == "clear" and "obj" in st and
                  fn.s(fn.strip(st["obj"], casts=True)).get("ref", {}).get("n") == "dst"]
        ok = bool(parse) and all(any(fn.stmt_dominates(c, p) for c in clears) for p in parse)
        ctx.ob(rule, "doDeserialize clears the destination before parsing", ok, fn.where,
               "" if ok else "parse() is not dominated by dst.clear(): what the destination held before is not entirely replaced", nontrivial=False)
    ctx.floor(rule, "doDeserialize instantiations", n, 10)


def r_numbuf(ctx, prog, rule="R-NUMBUF"):
    fns = jd(prog, "parseNumericValue")
    ctx.floor(rule, "parseNumericValue", len(fns), 4)
    for fn in fns[:1]:
        ext = None
        for r in prog.records:
            if r["q"].endswith("JsonDeserializer") and not r["dependent"]:
                for f in r["fields"]:
                    if f["n"] == "buffer_":
                        ext = f["size"]
        if ext is None:
            ctx.brk(rule, "field buffer_ not found")
            return
        # the index variable: a local initialised to 0 whose only
        # modification is the ++ inside the guarded store
        stores = []
        for k in fn.walk():
            st = fn.s(k)
            if st["k"] == "BinaryOperator" and st["op"] == "=":
                l = fn.s(fn.strip(st["c"][0], casts=True))
                if l["k"] == "ArraySubscriptExpr":
                    base = fn.s(fn.strip(l["c"][0], casts=True))
                    if base["k"] == "MemberExpr" and base["m"] == "buffer_":
                        stores.append((k, l))
        if len(stores) != 2:
            ctx.ob(rule, "stores into buffer_[%d] stay inside" % ext, None, fn.where, "expected the fill store and the terminator store, found %d" % len(stores))
            return
        idxvars = set()
        for k, l in stores:
            for x in fn.walk(l["c"][1]):
                if fn.s(x)["k"] == "DeclRefExpr":
                    idxvars.add(fn.s(x)["ref"]["d"])
        if len(idxvars) != 1:
            ctx.ob(rule, "stores into buffer_[%d] stay inside" % ext, None, fn.where, "index is not a single local")
            return
        nd = list(idxvars)[0]
        mods = []
        init0 = False
        for k in fn.walk():
            st = fn.s(k)
            if st["k"] == "DeclStmt":
                for d in st["decls"]:
                    if d["d"] == nd and "init" in d and fn.const(d["init"]) == 0:
                        init0 = True
            t = None
            if st["k"] == "UnaryOperator" and st["op"] in ("++", "--"):
                t = st["c"][0]
            elif st["k"] in ("BinaryOperator", "CompoundAssignOperator") and st["op"].endswith("=") and st["op"] not in ("==", "!=", "<=", ">="):
                t = st["c"][0]
            if t is not None:
                ts = fn.s(fn.strip(t, casts=True))
                if ts["k"] == "DeclRefExpr" and ts["ref"]["d"] == nd:
                    mods.append((k, st.get("op")))
        fill = [(k, l) for k, l in stores if any(fn.s(x)["k"] == "UnaryOperator" for x in fn.walk(l["c"][1]))]
        term = [(k, l) for k, l in stores if (k, l) not in fill]
        if not (init0 and len(mods) == 1 and mods[0][1] == "++" and len(fill) == 1 and len(term) == 1):
            ctx.ob(rule, "stores into buffer_[%d] stay inside" % ext, None, fn.where, "index is not (init 0, one ++ in the fill store)")
            return
        K = None
        for cond, pol in fn.guards_of(fill[0][0]):
            c = fn.s(fn.strip(cond, casts=True))
            if c["k"] != "BinaryOperator" or c["op"] not in ("<", "<=", ">", ">="):
                continue
            a = fn.s(fn.strip(c["c"][0], casts=True))
            b = fn.s(fn.strip(c["c"][1], casts=True))
            op = c["op"]
            if b["k"] == "DeclRefExpr" and b["ref"]["d"] == nd:
                a, b = b, a
                kv = fn.const(c["c"][0])
                op = {"<": ">", "<=": ">=", ">": "<", ">=": "<="}[op]
            elif a["k"] == "DeclRefExpr" and a["ref"]["d"] == nd:
                kv = fn.const(c["c"][1])
            else:
                continue
            if kv is None:
                continue
            if not pol:
                op = {"<": ">=", "<=": ">", ">": "<=", ">=": "<"}[op]
            # n op kv holds here: an exclusive upper bound on n
            if op == "<":
                kk = kv
            elif op == "<=":
                kk = kv + 1
            else:
                continue
            K = kk if K is None else min(K, kk)
        if K is None:
            ctx.ob(rule, "stores into buffer_[%d] stay inside" % ext, False, fn.loc(fill[0][0]),
                   "the fill store buffer_[n++] is not dominated by a test n < constant: an over-long numeric literal overflows the parser object")
            return
        # fill writes indices 0..K-1, afterwards n <= K, terminator at n
        ok = K <= ext - 1
        ctx.ob(rule, "stores into buffer_[%d] stay inside" % ext, ok, fn.loc(fill[0][0]),
               "fill under n < %d, terminator at index <= %d" % (K, K) if ok else
               "the fill runs while n < %d, so the terminator is stored at index %d of a %d-byte buffer: one byte past the end" % (K, K, ext))
        if ok:
            ctx.ob(rule, "numeric literals of up to %d characters are accepted" % (ext - 1), K == ext - 1, fn.loc(fill[0][0]),
                   "" if K == ext - 1 else
                   "the fill stops at %d characters although the buffer and the documented limit allow %d: a %d-character literal is cut" % (K, ext - 1, ext - 1))


def r_numall(ctx, prog, rule="R-NUMALL"):
    """Every character of a numeric literal that is consumed is also kept:
    within one iteration of the scan loop, move() is followed by the store
    into buffer_ on every path back to the loop condition."""
    fl = jd(prog, "parseNumericValue")
    ctx.floor(rule, "parseNumericValue", len(fl), 1)
    for fn in fl[:1]:
        moves = [i for i, st in fn.calls() if is_call(fn, i, "move")]
        store_blocks = set()
        for k in fn.walk():
            st = fn.s(k)
            if st["k"] == "BinaryOperator" and st["op"] == "=":
                l = fn.s(fn.strip(st["c"][0], casts=True))
                if l["k"] == "ArraySubscriptExpr" and fn.s(fn.strip(l["c"][0], casts=True)).get("m") == "buffer_" and \
                        any(fn.s(x)["k"] == "UnaryOperator" for x in fn.walk(l["c"][1])):
                    b = fn.block_of(k)
                    if b:
                        store_blocks.add(b[0])
        heads = set()
        for li in fn.walk():
            if fn.s(li)["k"] in ("WhileStmt", "ForStmt", "DoStmt") and fn.s(li).get("cond") is not None:
                for b in fn.cfg["blocks"]:
                    if b.get("cond") is not None and fn.strip(b["cond"], casts=True) in set(fn.walk(fn.s(li)["cond"])):
                        heads.add(b["id"])
                    # first block of a short-circuit loop condition
                for b in fn.cfg["blocks"]:
                    if b.get("termk") in ("WhileStmt", "ForStmt", "DoStmt"):
                        heads.add(b["id"])
        bad = None
        for m in moves:
            mb = fn.block_of(m)
            if mb is None:
                continue
            if mb[0] in store_blocks:
                continue
            reach = fn.reach_from([s_ for s_ in fn.blocks()[mb[0]]["succ"] if s_ >= 0], avoid=store_blocks)
            if reach & heads:
                bad = m
        ctx.ob(rule, "every consumed character of a number is kept", bad is None and bool(moves), fn.where if bad is None else fn.loc(bad),
               "" if bad is None else
               "a character is consumed by move() on a path that skips the store into buffer_: an over-long literal is silently "
               "truncated and the value no longer denotes the text (and junk after 63 characters is accepted)")


# ------------------------------------------------------------------ R-WS
FRESH, DIRTY = "F", "D"
CONSUMERS = ("move", "parseVariant", "skipVariant", "parseArray", "skipArray", "parseObject", "skipObject",
             "parseKey", "skipKey", "parseQuotedString", "skipQuotedString", "parseNonQuotedString",
             "skipNonQuotedString", "parseNumericValue", "skipNumericValue", "skipKeyword", "parseStringValue",
             "parseHex4")
NEED_FRESH = ("parseKey", "skipKey")


def r_ws(ctx, prog, rule="R-WS"):
    names = ("parseArray", "skipArray", "parseObject", "skipObject")
    n = 0
    for nm in names:
        fl = jd(prog, nm)
        if not fl:
            ctx.brk(rule, "JsonDeserializer::%s not found" % nm)
            continue
        fn = fl[0]
        n += 1

        def transfer(fn_, e, s):
            if is_call(fn_, e, "skipSpacesAndComments"):
                return (FRESH,)
            if is_call(fn_, e, *CONSUMERS):
                return (DIRTY,)
            return (s,)

        def branch(fn_, cond, pol, s):
            if isinstance(cond, tuple):
                return s
            i = fn_.strip(cond, casts=True)
            st = fn_.s(i)
            neg = False
            while st["k"] == "UnaryOperator" and st["op"] == "!":
                neg = not neg
                i = fn_.strip(st["c"][0], casts=True)
                st = fn_.s(i)
            if is_call(fn_, i, "eat"):
                return DIRTY if (pol != neg) else s
            return s

        def check(fn_, e, s):
            if is_call(fn_, e, "eat"):
                c = eat_char(fn_, e)
                if s != FRESH:
                    return "token test eat(%r) is reached with characters consumed since the last skipSpacesAndComments()" % (chr(c) if c else "?")
            if is_call(fn_, e, *NEED_FRESH) and s != FRESH:
                return "a key is parsed without skipping whitespace first"
            return None

        reports, _x, err = typestate.analyse(fn, DIRTY, transfer, branch, check)
        if err:
            ctx.ob(rule, "%s: whitespace is skipped before every token test" % nm, None, fn.where, err)
            continue
        # skipArray starts with skipVariant (which skips spaces itself): its
        # first eat is after skipSpaces too.  skipObject: eat('}') after skip.
        ok = not reports
        ctx.ob(rule, "%s: whitespace is skipped before every token test" % nm, ok,
               fn.where if ok else fn.loc(reports[0][0]),
               "" if ok else "%s (path through blocks %s): insignificant whitespace there makes a valid text InvalidInput" % (reports[0][2], reports[0][3]))
    ctx.floor(rule, "container routines", n, 4)


def r_closer(ctx, prog, rule="R-CLOSER"):
    want = {"parseArray": ord("]"), "skipArray": ord("]"), "parseObject": ord("}"), "skipObject": ord("}")}
    n = 0
    for nm, closer in want.items():
        for fn in jd(prog, nm)[:2]:
            n += 1
            bad = None
            nok = 0
            for i in fn.walk():
                if returns_code(fn, i, "Ok"):
                    nok += 1
                    good = False
                    for cond, pol in fn.guards_of(i):
                        j = fn.strip(cond, casts=True)
                        if is_call(fn, j, "eat") and eat_char(fn, j) == closer and pol:
                            good = True
                    if not good:
                        bad = i
            ctx.ob(rule, "%s returns Ok only after eat(%r)" % (nm, chr(closer)), bad is None and nok > 0, fn.where if bad is None else fn.loc(bad),
                   "%d Ok return(s)" % nok if bad is None else
                   "an Ok return is not on the true edge of eat(%r): an input that ends before the container is closed can be accepted" % chr(closer))
    for nm in ("parseQuotedString", "skipQuotedString"):
        for fn in jd(prog, nm)[:1]:
            n += 1
            bad = None
            for i in fn.walk():
                if returns_code(fn, i, "Ok"):
                    good = False
                    for cond, pol in fn.guards_of(i):
                        c = fn.s(fn.strip(cond, casts=True))
                        if c["k"] == "BinaryOperator" and c["op"] == "==" and pol:
                            nmz = [fn.s(fn.strip(x, casts=True)).get("ref", {}).get("n") for x in c["c"]]
                            if "stopChar" in nmz:
                                good = True
                    if not good:
                        bad = i
            ctx.ob(rule, "%s returns Ok only through the closing quote" % nm, bad is None, fn.where if bad is None else fn.loc(bad),
                   "" if bad is None else "Ok is reachable without seeing the closing quote")
    ctx.floor(rule, "closer obligations", n, 6)


def r_progress(ctx, prog, rule="R-PROGRESS"):
    fl = jd(prog, "parseNonQuotedString")
    ctx.floor(rule, "parseNonQuotedString", len(fl), 1)
    for fn in fl[:1]:
        moves = set()
        for i, st in fn.calls():
            if is_call(fn, i, "move"):
                b = fn.block_of(i)
                if b:
                    moves.add(b[0])
        oks = [i for i in fn.walk() if returns_code(fn, i, "Ok")]
        bad = None
        for i in oks:
            b = fn.block_of(i)
            reach = fn.reach_from([fn.cfg["entry"]], avoid=moves)
            if b and b[0] in reach:
                bad = i
        ctx.ob(rule, "an unquoted key is at least one character long", bad is None and bool(oks), fn.where if bad is None else fn.loc(bad),
               "" if bad is None else "Ok can be returned without consuming any character: a member without a key ({:1}) is accepted")


def r_whoret(ctx, prog, rule="R-WHORET"):
    n = 0
    for fn in sorted(prog.fns.values(), key=lambda f: f.key):
        if not fn.cls.endswith("JsonDeserializer"):
            continue
        for i in fn.walk():
            st = fn.s(i)
            if st["k"] != "ReturnStmt" or not st["c"]:
                continue
            r = fn.s(fn.strip(st["c"][0], casts=True))
            if not (r["k"] == "DeclRefExpr" and r["ref"]["k"] == "enumerator"):
                continue
            code = r["ref"]["n"]
            if code == "EmptyInput":
                n += 1
                ok = fn.name in ("skipSpacesAndComments", "parse")
                ctx.ob(rule, "%s returns EmptyInput" % fn.short, ok, fn.loc(i), "" if ok else "EmptyInput outside the leading-whitespace scan", nontrivial=False)
            elif code == "IncompleteInput":
                n += 1
                # must be guarded by a test "character == 0" (or its negation) / !current()
                ok = False
                for cond, pol in fn.guards_of(i):
                    c = fn.s(fn.strip(cond, casts=True))
                    if c["k"] == "BinaryOperator" and c["op"] in ("==", "!="):
                        vals = [fn.const(x) for x in c["c"]]
                        if 0 in vals and ((c["op"] == "==" and pol) or (c["op"] == "!=" and not pol)):
                            ok = True
                    if c["k"] == "UnaryOperator" and c["op"] == "!" and pol:
                        ok = True
                    if c["k"] in ("DeclRefExpr",) and not pol and c.get("tk", "").startswith(("s8", "u8")):
                        ok = True
                # switch (current()) case '\0'
                pb = fn.block_of(i)
                if not ok and pb:
                    for b in fn.cfg["blocks"]:
                        if b.get("termk") == "SwitchStmt":
                            for s in b["succ"]:
                                lb = fn.blocks()[s].get("label") if s >= 0 else None
                                if lb is not None and fn.s(lb)["k"] == "CaseStmt" and fn.s(lb).get("lo") == "0":
                                    if pb[0] in fn.reach_from([s], avoid=(b["id"],)):
                                        ok = True
                ctx.ob(rule, "%s: IncompleteInput only where the input ended" % fn.short, ok, fn.loc(i),
                       "" if ok else "IncompleteInput is returned on an edge that does not test for the end of input")
    ctx.floor(rule, "classified return sites", n, 8)


def r_optgate(ctx, prog, rule="R-OPTGATE"):
    flags = " ".join(prog.flags)
    comments = "ENABLE_COMMENTS=1" in flags
    nan = "ENABLE_NAN=1" in flags
    inf = "ENABLE_INFINITY=1" in flags
    for fn in jd(prog, "skipSpacesAndComments")[:1]:
        has_slash = False
        for i in fn.walk():
            st = fn.s(i)
            if st["k"] == "CaseStmt" and st.get("lo") == str(ord("/")):
                has_slash = True
        ctx.ob(rule, "comments are %s" % ("recognised" if comments else "not recognised"), has_slash == comments, fn.where,
               "case '/' %s" % ("present" if has_slash else "absent"))
    for fn in prog.q("detail::canBeInNumber")[:1]:
        # fold the predicate for every byte
        from rules import c13
        acc = []
        try:
            for c in range(256):
                v = c if c < 128 else c - 256
                if c13.fold_pred(fn, (c13.Fraction(v), 0), "s8", prog):
                    acc.append(c)
        except c13.Unk as e:
            ctx.ob(rule, "canBeInNumber folds", None, fn.where, str(e))
            return
        base = set(b"0123456789+-.eE")
        extra = set()
        if nan:
            extra |= set(b"nNaA")
        if inf:
            extra |= set(b"iInNfFtTyY")
        got = set(acc)
        ok = base <= got and got <= base | extra and (bool(got - base) == bool(extra) or not extra)
        ctx.ob(rule, "characters of a number are the documented set", ok, fn.where,
               "accepted: %s" % bytes(sorted(got)).decode("latin1") if ok else
               "canBeInNumber accepts %r but with NaN=%d Infinity=%d the documented set is %r" %
               (bytes(sorted(got)).decode("latin1"), nan, inf, bytes(sorted(base | extra)).decode("latin1")))
    # the keyword spellings inside parseNumber follow their own option
    npn = 0
    for fn in sorted(prog.q("detail::parseNumber"), key=lambda f: f.key):
        if len(fn.params) != 1 or fn.d.get("targs") or fn.cfg is None:
            continue
        npn += 1
        LET = set(range(ord("a"), ord("z") + 1)) | set(range(ord("A"), ord("Z") + 1))

        def letter_guarded(r):
            for a in fn.ancestors(r):
                sa = fn.s(a)
                if sa["k"] == "CaseStmt" and int(sa["lo"]) in LET:
                    return True
            conds = [c for c, pol in fn.guards_of(r) if pol and fn.s(fn.strip(c, casts=True))["k"] == "BinaryOperator" and fn.s(fn.strip(c, casts=True))["op"] in ("==", "||")]
            for a in fn.ancestors(r):
                sa = fn.s(a)
                if sa["k"] == "IfStmt" and sa.get("then") is not None and r in set(fn.walk(sa["then"])):
                    conds.append(sa["cond"])
            for cond in conds:
                for x in fn.walk(cond):
                    sx = fn.s(x)
                    if sx["k"] == "CharacterLiteral" and int(sx.get("v", 0)) in LET and int(sx.get("v", 0)) not in (ord("e"), ord("E")):
                        return True
            return False
        kw = {"nan": False, "inf": False}
        for r in fn.walk():
            if fn.s(r)["k"] != "ReturnStmt":
                continue
            for x in fn.walk(r):
                sx = fn.s(x)
                if sx["k"] in P.CALL_KINDS and "callee" in sx:
                    nm = sx["callee"]["q"].split("::")[-1]
                    if nm in kw and letter_guarded(r):
                        kw[nm] = True
        ctx.ob(rule, "parseNumber spells NaN %s" % ("when enabled" if nan else "only when enabled"), kw["nan"] == nan, fn.where,
               "" if kw["nan"] == nan else "ENABLE_NAN=%d but parseNumber %s a letter-introduced NaN: %s" %
               (nan, "recognises" if kw["nan"] else "does not recognise", "texts such as [NaN] are accepted although the option is off"
                if kw["nan"] else "the documented spelling is rejected"))
        ctx.ob(rule, "parseNumber spells Infinity %s" % ("when enabled" if inf else "only when enabled"), kw["inf"] == inf, fn.where,
               "" if kw["inf"] == inf else "ENABLE_INFINITY=%d but parseNumber %s a letter-introduced infinity: %s" %
               (inf, "recognises" if kw["inf"] else "does not recognise", "texts such as [-Infinity] are accepted although the option is off"
                if kw["inf"] else "the documented spelling is rejected"))
    ctx.floor(rule, "parseNumber(const char*)", npn, 1)
    for r_ in ("R-RESET", "R-NUMBUF", "R-WS", "R-CLOSER", "R-PROGRESS", "R-WHORET", "R-OPTGATE"):
        ctx.doc(r_, [l.strip() for l in __doc__.split("\n") if l.startswith(r_)][0])


def r_validafter(ctx, prog, rule="R-VALIDAFTER"):
    n = 0
    for fn in sorted(prog.fns.values(), key=lambda f: f.key):
        if not fn.cls.endswith("JsonDeserializer") or fn.cfg is None:
            continue
        apps = [i for i, st in fn.calls() if st["callee"]["q"].endswith("StringBuilder::append")]
        if not apps:
            continue
        n += 1

        def transfer(fn_, e, s_):
            st = fn_.s(e)
            if st["k"] in P.CALL_KINDS and "callee" in st and st["callee"]["q"].endswith("StringBuilder::append"):
                return ("dirty",)
            return (s_,)

        def branch(fn_, cond, pol, s_):
            if isinstance(cond, tuple):
                return s_
            c = fn_.s(fn_.strip(cond, casts=True))
            neg = False
            while c["k"] == "UnaryOperator" and c["op"] == "!":
                neg = not neg
                c = fn_.s(fn_.strip(c["c"][0], casts=True))
            if c["k"] in P.CALL_KINDS and c.get("callee", {}).get("q", "").endswith("StringBuilder::isValid"):
                if pol != neg:
                    return "checked"
            return s_

        def check(fn_, e, s_):
            if s_ == "dirty" and returns_code(fn_, e, "Ok"):
                return "returns Ok after an append without a later isValid()"
            return None
        reports, _x, err = typestate.analyse(fn, "clean", transfer, branch, check)
        if err:
            ctx.ob(rule, "%s: Ok only after isValid() following the last append" % fn.short, None, fn.where, err)
            continue
        ok = not reports
        ctx.ob(rule, "%s: Ok only after isValid() following the last append" % fn.short, ok, fn.where if ok else fn.loc(reports[0][0]),
               "%d append site(s), every `return Ok` is reached in state checked" % len(apps) if ok else
               "a path appends to the string builder and then returns Ok without testing isValid() afterwards: when the builder "
               "cannot grow (allocation failure, string longer than the length limit) the routine reports success and the caller "
               "dereferences the null string node instead of returning NoMemory")
    ctx.floor(rule, "JSON routines appending to the string builder", n, 2)
    ctx.doc(rule, [l.strip() for l in __doc__.split("\n") if l.startswith(rule)][0])


def r_numlook(ctx, prog, rule="R-NUMLOOK"):
    """parse() judges "something follows a float" by Latch::last(), which is
    the character after the number only if the number routine looked at it:
    in parseNumericValue no `return Ok` is reached after a move() without a
    current() in between (forward typestate)."""
    n = 0
    uses_last = any(st_["callee"]["q"].endswith("Latch::last") for f_ in jd(prog, "parse") for _, st_ in f_.calls())
    for fn in jd(prog, "parseNumericValue")[:1]:
        n += 1

        def _tr(fn_, e_, s_):
            st_ = fn_.s(e_)
            if st_["k"] in P.CALL_KINDS and "callee" in st_ and "JsonDeserializer" in st_["callee"]["q"]:
                n_ = st_["callee"]["q"].split("::")[-1]
                if n_ == "move":
                    return ("moved",)
                if n_ == "current":
                    return ("looked",)
            return (s_,)

        def _ck(fn_, e_, s_):
            if s_ == "moved" and returns_code(fn_, e_, "Ok"):
                return "Ok after move() without current()"
            return None
        reps, _x, err = typestate.analyse(fn, "looked", _tr, None, _ck)
        ok = (not reps and not err) or not uses_last
        ctx.ob(rule, "parseNumericValue returns Ok with the following character looked at", None if err else ok, fn.where if ok else fn.loc(reps[0][0]),
               "every Ok return follows a current() after the last move()" if ok else
               "an Ok return is reached right after move() (the 63-character buffer is full): parse() then takes the number's own last "
               "character for what follows it and rejects a valid 63-character number")
    ctx.floor(rule, "parseNumericValue", n, 1)
    ctx.doc(rule, r_numlook.__doc__.strip().replace("\n", " "))


EOF_MARKER = None
