"""R-LATCH — typestate of the JSON parser's one-character latch (C03.1, C16,
parts of C10).

The parser reads through Latch: current() loads one character from the reader
if none is loaded, move() discards the loaded one.  Interpreting every method
of JsonDeserializer path-wise (lib/absint.py: symbolic characters with
intervals and excluded values; non-recursive callees and the character
predicates inlined; string-literal parameters unrolled), with

    current():  loaded -> the loaded generation
                unloaded -> a fresh generation g (any char), one read
    move():     loaded g -> unloaded; if g may still be NUL it becomes pending

the rule refutes any path on which current() has to *load* while a pending
generation can still be NUL: that load is a read behind the terminator of a
zero-terminated input (or behind the end of a stream).  Recursive routines
are summarised by the latch class they are entered with (checked at every
call site) and the classes they can return Ok in (fixed point).

For C16 the same run yields the latch state at the Ok exits: only the numeric
routines may return with a character loaded (one look-ahead); arrays,
objects, strings and keywords return with the latch unloaded, i.e. nothing
was read beyond the value.
"""
from lib import absint
from lib import prog as P

REC = ("parseVariant", "parseArray", "parseObject", "skipVariant", "skipArray", "skipObject")
PREDS = ("isQuote", "canBeInNumber", "canBeInNonQuotedString", "isBetween", "isdigit")  # decodeHex is opaque: its result only selects InvalidInput
U, LNZ, LQ = "U", "Lnz", "L?"


class LI(absint.Interp):
    def __init__(self, prog, summaries):
        absint.Interp.__init__(self, prog, emit=(), inline=(), pure_syms=(), max_paths=int(__import__("os").environ.get("AJ_LATCH_PATHS", "60000")))
        self.summaries = summaries      # name -> set of post classes
        self.max_depth = 6
        self.split_bool_returns = True
        self.max_unroll = 12
        self.callsites = []             # (callee name, class at call, fn, stmt)
        self.violations = []
        self.gen = [0]
        self.summ_cache = {}
        names = set()
        for f in prog.fns.values():
            if f.cls.endswith("JsonDeserializer") and f.name not in REC and not f.d.get("ctor") and f.name not in ("current", "move", "parse", "decodeHex"):
                names.add("JsonDeserializer::" + f.name)
        self.inline = tuple(sorted(names)) + tuple("::" + p_ for p_ in PREDS)

    def make_sub(self):
        sub = LI.__new__(LI)
        sub.__dict__.update(self.__dict__)   # shares callsites / violations lists and counters
        sub.shared = self.shared if hasattr(self, "shared") else self
        return sub

    def summary(self, callee, cls_):
        key = (callee.key, cls_)
        cache = self.summ_cache
        if key in cache:
            return cache[key]
        cache[key] = set()          # recursion guard (none expected)
        sub = LI(self.prog, self.summaries)
        sub.summ_cache = cache
        sub.violations = self.violations
        sub.callsites = self.callsites
        sub.gen = self.gen
        env, pc, ne = entry_path(sub, cls_)
        paths = sub.run(callee, env, pc, 0, init_ne=ne)
        outs = set()
        for pth in paths:
            if pth.end == "budget" or any(e_[0] == "budget" for e_ in pth.events):
                self.budget_hit = True
            if pth.end != "exit":
                continue
            r = pth.ret
            if r is None:
                rk, rv = "u", None
            elif absint.is_c(r):
                rk, rv = "c", r[1]
            elif r == ("nz",) or (absint.is_s(r) and len(r) == 3 and not pth.can_be(r[1], -r[2])):
                rk, rv = "nz", None
            else:
                rk, rv = "u", None
            loaded, gen, pending = sub.st(pth)
            npend = sum(1 for g in pending if pth.can_be(g, 0) and g != "g0")
            outs.add((rk, rv, sub.cls(pth), npend))
        if getattr(sub, "budget_hit", False):
            self.budget_hit = True
        cache[key] = outs
        return outs

    def status(self, path, sym):
        lo, hi = path.rng(sym)
        if lo == hi == 0:
            return "z"
        return "nz" if not path.can_be(sym, 0) else "mz"

    def after_inline(self, fn, e, path):
        """Canonical names for the generations that survive an inlined call
        (the loaded one and the pending ones), so that paths which differ
        only in which load site produced them can be joined.  Symbols still
        referenced by the caller's variables keep their names."""
        loaded, gen, pending = self.st(path)
        keep = set()
        for k_, v_ in path.env.items():
            if not isinstance(k_, str) and absint.is_s(v_):
                keep.add(v_[1])
        ren = {}
        if loaded and gen[1] not in keep:
            ren[gen[1]] = "G%d" % e
        for n_, g in enumerate(pending):
            if g not in keep and g not in ren:
                ren[g] = "P%d_%d" % (e, n_)
        if not ren:
            return
        for old, new in ren.items():
            if old in path.pc:
                path.pc[new] = path.pc.pop(old)
            if old in path.ne:
                path.ne[new] = path.ne.pop(old)
        if loaded and gen[1] in ren:
            path.env["L.gen"] = ("s", ren[gen[1]], gen[2])
        path.env["L.pending"] = tuple(ren.get(g, g) for g in pending)
        cv = path.callval.get(e)
        # drop dead generation symbols created inside the callee
        live = set(ren.values()) | keep
        for k_, v_ in path.env.items():
            if absint.is_s(v_):
                live.add(v_[1])
        if cv is not None and absint.is_s(cv):
            live.add(cv[1])
        for sym in list(path.pc):
            if (sym.startswith("g") or sym.startswith("G") or sym.startswith("P")) and sym not in live:
                path.pc.pop(sym, None)
                path.ne.pop(sym, None)

    def abs_key(self, path):
        loaded, gen, pending = self.st(path)
        env_sig = []
        for k_, v_ in sorted(path.env.items(), key=lambda kv: str(kv[0])):
            if isinstance(k_, str):
                continue
            if absint.is_s(v_):
                env_sig.append((k_, self.status(path, v_[1]), loaded and gen is not None and v_[1] == gen[1]))
            elif v_ and v_[0] == "p":
                env_sig.append((k_, v_[2]))
            # plain integer constants (loop counters such as the digit count)
            # do not influence the latch protocol and are left out
        return (loaded, self.status(path, gen[1]) if loaded else None, tuple(sorted(self.status(path, g) for g in pending)), tuple(env_sig))

    def merge_key(self, path):
        loaded, gen, pending = self.st(path)
        cv = None
        if path.callval:
            pass
        env_sig = []
        for k_, v_ in sorted(path.env.items(), key=lambda kv: str(kv[0])):
            if isinstance(k_, str):
                continue
            if absint.is_s(v_):
                env_sig.append((k_, "s", v_[1], v_[2], self.status(path, v_[1])))
            else:
                env_sig.append((k_, v_))
        last = path.events[-1] if path.events and path.events[-1][0] == "leave" else None
        ret = last[2] if last else None
        if ret is not None and absint.is_s(ret):
            ret = ("s", self.status(path, ret[1]))
        return (loaded, gen if not loaded else (gen[1], self.status(path, gen[1])), tuple(self.status(path, g) for g in pending),
                ret, tuple(env_sig), path.end, any(e[0] == "violation" for e in path.events))

    # -- latch state helpers (stored under string keys so that they flow
    #    through inlined calls)
    @staticmethod
    def st(path):
        return (path.env.get("L.loaded", absint.C(0))[1], path.env.get("L.gen"), path.env.get("L.pending", ()))

    def cls(self, path):
        loaded, gen, pending = self.st(path)
        if not loaded:
            return U
        return LNZ if not path.can_be(gen[1], 0) else LQ

    def on_call(self, fn, e, st, p):
        q = st["callee"]["q"]
        nm = q.split("::")[-1]
        if "JsonDeserializer" not in q:
            return None
        if nm == "current":
            loaded, gen, pending = self.st(p)
            if loaded:
                p.callval[e] = gen
                return [p]
            live = [g for g in pending if p.can_be(g, 0)]
            if live:
                self.violations.append((fn, e, live[0], list(p.blocks)))
                p.events.append(("violation", live[0], e))
            self.gen[0] += 1
            g = "g%d" % self.gen[0]
            p.pc[g] = (-128, 127)
            p.env["L.loaded"] = absint.C(1)
            p.env["L.gen"] = ("s", g, 0)
            p.env["L.pending"] = tuple(x for x in pending if p.can_be(x, 0))
            p.events.append(("load", g, e))
            p.callval[e] = ("s", g, 0)
            return [p]
        if nm == "move":
            loaded, gen, pending = self.st(p)
            if loaded:
                g = gen[1]
                if p.can_be(g, 0):
                    pending = tuple(pending) + (g,)
                p.env["L.loaded"] = absint.C(0)
                p.env["L.pending"] = pending
                p.events.append(("move", g, e))
            return [p]
        callee_fn = self.prog.fns.get(st["callee"]["key"])
        if nm not in REC and callee_fn is not None and not callee_fn.params and nm not in ("current", "move") \
                and callee_fn.cls.endswith("JsonDeserializer") and not getattr(self, "no_summ", False):
            # parameterless routine: communicates through the latch only, so
            # it is summarised per entry class (computed once, memoised)
            c = self.cls(p)
            outs_ = self.summary(callee_fn, c)
            loaded, gen, pending = self.st(p)
            live = tuple(g for g in pending if p.can_be(g, 0))
            res = []
            for (rk, rv, post, newpending) in outs_:
                np = p.clone()
                self.gen[0] += 1
                g = "g%d" % self.gen[0]
                if post == U:
                    np.env["L.loaded"] = absint.C(0)
                else:
                    np.pc[g] = (-128, 127)
                    np.env["L.loaded"] = absint.C(1)
                    np.env["L.gen"] = ("s", g, 0)
                    if post == LNZ:
                        np.exclude(g, 0)
                pend = live
                for k_ in range(newpending):
                    self.gen[0] += 1
                    pg = "g%d" % self.gen[0]
                    np.pc[pg] = (-128, 127)
                    pend = pend + (pg,)
                np.env["L.pending"] = pend
                if rk == "c":
                    np.callval[e] = absint.C(rv)
                elif rk == "nz":
                    np.callval[e] = ("nz",)
                else:
                    self.gen[0] += 1
                    en = "e%d" % self.gen[0]
                    np.pc[en] = (0, 5)
                    np.callval[e] = ("s", en, 0)
                np.events.append(("leave", st["callee"]["q"], np.callval[e], e))
                res.append(np)
            return res
        if nm in REC:
            c = self.cls(p)
            self.callsites.append((nm, c, fn, e))
            loaded, gen, pending = self.st(p)
            live = [g for g in pending if p.can_be(g, 0)]
            outs = []
            for post in sorted(self.summaries.get(nm, {U})):
                np = p.clone()
                if post == U:
                    np.env["L.loaded"] = absint.C(0)
                    np.env["L.pending"] = tuple(live)
                else:
                    self.gen[0] += 1
                    g = "g%d" % self.gen[0]
                    np.pc[g] = (-128, 127)
                    np.env["L.loaded"] = absint.C(1)
                    np.env["L.gen"] = ("s", g, 0)
                    np.env["L.pending"] = tuple(live)
                self.gen[0] += 1
                en = "e%d" % self.gen[0]
                np.pc[en] = (0, 5)
                np.callval[e] = ("s", en, 0)
                np.events.append(("rec", nm, c, post, e))
                outs.append(np)
            return outs
        return None


def entry_path(li, cls):
    env, pc, ne = {}, {}, {}
    if cls == U:
        env["L.loaded"] = absint.C(0)
    else:
        env["L.loaded"] = absint.C(1)
        env["L.gen"] = ("s", "g0", 0)
        pc["g0"] = (-128, 127)
        if cls == LNZ:
            ne["g0"] = frozenset({0})
    env["L.pending"] = ()
    return env, pc, ne


def analyse(prog):
    """Returns (violations, post classes per function, call-site classes,
    per-function exit info, budget problems)."""
    fns = {}
    for nm in REC + ("parse",):
        fl = [f for f in prog.q("JsonDeserializer::" + nm) if "Filter" in f.key or nm in ("skipVariant", "skipArray", "skipObject")]
        # prefer an instantiation with a real Filter (both arms present)
        fl = sorted(fl, key=lambda f: (("DeserializationOption::Filter" not in f.key), f.key))
        if fl:
            fns[nm] = fl[0]
    entry = {nm: set() for nm in fns}
    entry["parse"] = {U}
    post = {nm: set() for nm in fns}
    violations = []
    problems = []
    exits = {}
    cache = {}
    cache_viol = []
    for rounds in range(6):
        changed = False
        for nm, fn in fns.items():
            for cls in sorted(entry[nm]):
                li = LI(prog, {k: (v or {U}) for k, v in post.items()})
                li.summ_cache = cache
                env, pc, ne = entry_path(li, cls)
                paths = li.run(fn, env, pc, 0, init_ne=ne)
                if any(pth.end == "budget" for pth in paths) or getattr(li, "budget_hit", False) or any(e[0] == "budget" for pth in paths for e in pth.events):
                    problems.append("%s[%s]: path budget exceeded" % (nm, cls))
                for v in li.violations:
                    violations.append((nm, cls) + v)
                for callee, c, cfn, ce in li.callsites:
                    if callee in entry and c not in entry[callee]:
                        entry[callee].add(c)
                        changed = True
                for pth in paths:
                    if pth.end not in ("exit",):
                        continue
                    r = pth.ret
                    if r is not None and absint.is_c(r) and r[1] != 0:
                        continue
                    if r == ("nz",):
                        continue
                    if r is not None and absint.is_s(r) and len(r) == 3 and not pth.can_be(r[1], -r[2]):
                        continue
                    c2 = li.cls(pth)
                    c2 = LQ if c2 == LNZ else c2
                    if any(e[0] == "violation" for e in pth.events):
                        continue
                    last = [e_[1].split("::")[-1] for e_ in pth.events if e_[0] in ("leave",)]
                    lastrec = [e_[1] for e_ in pth.events if e_[0] == "rec"]
                    src = last[-1] if (r is not None and absint.is_c(r) or not lastrec) and last else (lastrec[-1] if lastrec else "?")
                    # the routine that produced the Ok result: the last inlined
                    # callee for constant returns, the recursive callee otherwise
                    if r is not None and absint.is_s(r) and lastrec:
                        src = lastrec[-1]
                    exits.setdefault(nm, set()).add((c2, src))
                    if c2 not in post[nm]:
                        post[nm].add(c2)
                        changed = True
        if not changed:
            break
    return violations, post, entry, exits, problems, fns


_SA_CACHE = {}


def standalone_exits(prog, name, entry_cls):
    """Latch classes at the Ok exits of a non-recursive routine."""
    fl = prog.q("JsonDeserializer::" + name)
    if not fl:
        return None
    li = LI(prog, {k: {U, LQ} for k in REC})
    li.summ_cache = _SA_CACHE.setdefault(id(prog), {})
    env, pc, ne = entry_path(li, entry_cls)
    paths = li.run(fl[0], env, pc, 0, init_ne=ne)
    out = set()
    for pth in paths:
        if pth.end != "exit":
            continue
        r = pth.ret
        if r is not None and absint.is_c(r) and r[1] != 0:
            continue
        if r == ("nz",):
            continue
        if r is not None and absint.is_s(r) and len(r) == 3 and not pth.can_be(r[1], -r[2]):
            continue
        out.add(li.cls(pth))
    return out, li.violations, any(p_.end == "budget" for p_ in paths)


def run(ctx, prog, rule="R-LATCH", want_c16=False):
    import os
    violations, post, entry, exits, problems, fns = analyse(prog)
    if any("path budget exceeded" in pr for pr in problems) and "AJ_LATCH_PATHS" not in os.environ:
        # an unusual loop shape (e.g. do/while with an inlined test) needs more paths: one slower retry
        os.environ["AJ_LATCH_PATHS"] = "480000"
        try:
            violations, post, entry, exits, problems, fns = analyse(prog)
        finally:
            del os.environ["AJ_LATCH_PATHS"]
    for pr in problems:
        ctx.brk(rule, pr)
    seen = set()
    for nm in sorted(fns):
        bad = [v for v in violations if v[0] == nm]
        where = fns[nm].where
        detail = "entry classes %s, Ok-exit classes %s" % (sorted(entry.get(nm, ())), sorted(post.get(nm, ())))
        if bad:
            _, cls, fn, e, g, blocks = bad[0]
            where = fn.loc(e)
            detail = ("entered with latch %s: %s has to load a new character although a discarded character (%s) may have been the "
                      "terminator: the parser reads behind the end of a zero-terminated input (blocks %s)" % (cls, fn.text(e), g, blocks[-8:]))
        ctx.ob(rule, "%s never reads after the terminator" % nm, not bad, where, detail)
    ctx.floor(rule, "recursive routines analysed", len(fns), 7)
    # every call site of a recursive routine enters it in an analysed class
    # (true by construction of the fixed point; recorded for the evidence)
    ctx.count(rule + ":entry_classes", sum(len(v) for v in entry.values()))
    # preconditions the code states: containers are entered on their opener
    for nm in ("parseArray", "skipArray", "parseObject", "skipObject"):
        if nm in entry:
            ok = entry[nm] <= {LNZ}
            ctx.ob(rule, "%s is only entered on a loaded, non-NUL character" % nm, ok, fns[nm].where, "entry classes %s" % sorted(entry[nm]))
    if want_c16:
        rule2 = "R-CONSUME"
        ctx.doc(rule2, "latch class at Ok exits: only numeric routines return with a look-ahead character loaded")
        table = {
            "parseArray": (LNZ, {U}), "skipArray": (LNZ, {U}), "parseObject": (LNZ, {U}), "skipObject": (LNZ, {U}),
        }
        for nm, (ecls, want) in table.items():
            got = post.get(nm, set())
            ctx.ob(rule2, "%s returns Ok with nothing loaded beyond the value" % nm, got <= want and bool(got), fns[nm].where if nm in fns else "",
                   "Ok-exit latch classes %s" % sorted(got) if got <= want else
                   "%s can return Ok with a character loaded (%s): one byte beyond the value was taken from the stream and is lost "
                   "for the next document" % (nm, sorted(got)))
        for nm, ecls, want in (("parseStringValue", LNZ, {U}), ("skipQuotedString", LNZ, {U}), ("parseQuotedString", LNZ, {U}),
                               ("skipKeyword", LNZ, {U}), ("parseNumericValue", LQ, {U, LQ, LNZ}), ("skipNumericValue", LQ, {U, LQ, LNZ})):
            r = standalone_exits(prog, nm, ecls)
            if r is None:
                ctx.brk(rule2, "JsonDeserializer::%s not found" % nm)
                continue
            got, viol, budget = r
            if budget:
                ctx.brk(rule2, "%s: path budget exceeded" % nm)
            fn = prog.q("JsonDeserializer::" + nm)[0]
            if nm == "skipKeyword":
                # analysed through its call sites (literal parameter): see below
                continue
            ok = got <= want and bool(got)
            ctx.ob(rule2, "%s returns Ok with %s" % (nm, "at most one look-ahead character" if LQ in want else "nothing loaded beyond the value"),
                   ok, fn.where,
                   "Ok-exit latch classes %s" % sorted(got) if ok else
                   "%s can return Ok in latch class %s: a byte beyond the value was read" % (nm, sorted(got - want)))
            if nm == "parseNumericValue":
                # parse() judges "trailing characters after a float" by Latch::last(): that is the
                # character following the number only if the number routine loaded it
                uses_last = any(st_["callee"]["q"].endswith("Latch::last") for f_ in prog.q("JsonDeserializer::parse") for _, st_ in f_.calls())
                if uses_last:
                    # the abstract run bounds the unrolling of the 63-character loop, so the exit through the
                    # buffer-full test is decided structurally: after the last move() on any path to an Ok
                    # return, current() is called again
                    from lib import typestate as _ts
                    from rules import jsonparse as _jp

                    def _tr(fn_, e_, s_):
                        st_ = fn_.s(e_)
                        if st_["k"] in P.CALL_KINDS and "callee" in st_ and "JsonDeserializer" in st_["callee"]["q"]:
                            n_ = st_["callee"]["q"].split("::")[-1]
                            if n_ == "move":
                                return ("moved",)
                            if n_ == "current":
                                return ("looked",)
                        return (s_,)

                    def _ck(fn_, e_, s_):
                        if s_ == "moved" and _jp.returns_code(fn_, e_, "Ok"):
                            return "Ok after move() without current()"
                        return None
                    reps, _x, err_ = _ts.analyse(fn, "looked", _tr, None, _ck)
                    okl = U not in got and bool(got) and not reps and not err_
                    ctx.ob(rule2, "parseNumericValue always returns Ok with the following character loaded", okl, fn.where,
                           "Ok-exit latch classes %s; parse() reads Latch::last() as the character after the number" % sorted(got) if okl else
                           "parseNumericValue can return Ok without having looked at the next character (latch class U), but parse() takes "
                           "Latch::last() for the character that follows a float: it then sees the number's own last character and a "
                           "valid 63-character number is rejected with InvalidInput")
            if viol:
                f2, e, g, blocks = viol[0]
                ctx.ob(rule, "%s never reads after the terminator" % nm, False, f2.loc(e),
                       "%s loads a character after discarding one that may be the terminator" % f2.text(e))
            else:
                ctx.ob(rule, "%s never reads after the terminator" % nm, True, fn.where, "")
        # skipKeyword through parseVariant's literal call sites: covered by the
        # value-level summary: parseVariant/skipVariant Ok-exit classes
        for nm in ("parseVariant", "skipVariant", "parse"):
            got = post.get(nm, set())
            ok = got <= {U, LQ} and bool(got)
            ctx.ob(rule2, "%s returns Ok with at most one look-ahead character" % nm, ok, fns[nm].where if nm in fns else "", "Ok-exit latch classes %s" % sorted(got))
            # who leaves a character loaded
            lookers = sorted(src for (c2, src) in exits.get(nm, ()) if c2 != U)
            allowed = {"parseNumericValue", "skipNumericValue", "parseVariant", "skipVariant"}
            bad = [x for x in lookers if x not in allowed]
            ctx.ob(rule2, "%s: only numbers end with a look-ahead character" % nm, not bad, fns[nm].where if nm in fns else "",
                   "look-ahead exits come from %s" % (lookers or "nowhere") if not bad else
                   "%s returns Ok with a character loaded beyond the value: after a literal, string or container one more byte "
                   "was taken from the stream and is lost for the next document" % bad[0])
        # the look-ahead can only come from the numeric routines: value-level
        # exits that forward a keyword/string/container result are unloaded
        ctx.note("value-level exits: %s" % {k: sorted(v) for k, v in exits.items()})
    ctx.doc(rule, __doc__.strip().split("\n\n")[1].replace("\n", " ")[:500])
