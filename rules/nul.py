"""R-NUL — a sized string is never narrowed to a zero-terminated one
(C01.2, C02.4, C11.3, C14.2).

Sources: JsonString::c_str(), as<const char*>() of a variant,
StringNode::data.  A source may be indexed, compared as a pointer, or passed
to a callee *together with* an integral (non-constant) argument — its length.
Passing it alone (to adaptString, a TChar* overload, JsonString(const char*),
strlen, a constructor, operator[] ...) drops the length: embedded NULs then
truncate keys/values.  Returning it is allowed only from the C-string
accessors themselves (functions whose result type is const char*).
"""
from lib import prog as P

# (caller short name, callee last name) -> reason
ALLOWED = {
    ("Reader::Reader", "Reader"):
        "VariantReader: a variant used as *input* is by definition read as a "
        "zero-terminated string (C03 input kinds)",
    ("VariantData::asIntegral", "parseNumber"):
        "numeric parse stops at the first non-number character; NUL is one",
    ("VariantData::asFloat", "parseNumber"):
        "numeric parse stops at the first non-number character; NUL is one",
    ("VariantData::clear", "dereferenceString"):
        "identity of the node by address, no content comparison",
    ("convertFromJson", "operator="):
        "Arduino String::operator=(const char*) is an external sink (Arduino "
        "String cannot hold NUL)",
}
RETURN_OK = {"as", "operator const char *", "operator|", "c_str", "fromJson",
             "reserve", "operator const char*"}

TRANSPARENT_UP = {"ParenExpr", "ImplicitCastExpr", "ExprWithCleanups",
                  "MaterializeTemporaryExpr", "CXXBindTemporaryExpr",
                  "ConditionalOperator", "CXXStaticCastExpr", "CStyleCastExpr",
                  "CXXReinterpretCastExpr", "CXXFunctionalCastExpr",
                  "CXXConstCastExpr"}


def source_kind(fn, i):
    st = fn.s(i)
    k = st["k"]
    if k == "CXXMemberCallExpr" and st.get("callee", {}).get("q", "").endswith("JsonString::c_str"):
        return "c_str()"
    if k in P.CALL_KINDS and st.get("callee", {}).get("q", "").split("::")[-1] == "as" \
            and st.get("t") == "const char *":
        return "as<const char*>()"
    if k == "MemberExpr" and st.get("m") == "data" and (st.get("rec") or "").endswith("StringNode"):
        return "StringNode::data"
    return None


def has_size_companion(fn, call, arg_id):
    st = fn.s(call)
    for a in st.get("args", []):
        if a == arg_id:
            continue
        sa = fn.s(fn.strip(a, casts=True))
        tk = fn.s(a).get("tk", "")
        if tk and tk[0] in "us" and tk[1:].isdigit() and int(tk[1:]) >= 8:
            if sa["k"] in ("IntegerLiteral", "CharacterLiteral"):
                continue
            return True
    return False


def classify_use(fn, i, visited=None):
    """[(verdict, callee/descr, stmt id)] verdict in ok/narrow/unknown."""
    if visited is None:
        visited = set()
    out = []
    cur = i
    for a in fn.ancestors(i):
        sa = fn.s(a)
        k = sa["k"]
        if k in TRANSPARENT_UP:
            if k == "ConditionalOperator" and sa["c"][0] == cur:
                return [("ok", "tested", a)]
            cur = a
            continue
        if k in P.CALL_KINDS:
            args = sa.get("args", [])
            if cur in args:
                if has_size_companion(fn, a, cur):
                    return [("ok", "passed with its length", a)]
                cq = sa.get("callee", {}).get("q", "?")
                return [("narrow", cq, a)]
            if sa.get("obj") == cur:
                return [("ok", "object of a call", a)]
            return [("ok", "callee expression", a)]
        if k == "ArraySubscriptExpr":
            return [("ok", "indexed", a)]
        if k == "BinaryOperator":
            if sa["op"] in ("==", "!=", "<", ">", "<=", ">=", "&&", "||"):
                return [("ok", "pointer comparison", a)]
            if sa["op"] in ("+", "-"):
                cur = a
                continue
            if sa["op"] == "=":
                l = fn.s(fn.strip(sa["c"][0]))
                if sa["c"][1] == cur and l["k"] == "DeclRefExpr" and l["ref"]["k"] == "local":
                    return follow_local(fn, l["ref"]["d"], visited)
                if sa["c"][1] == cur and l["k"] == "MemberExpr":
                    return [("unknown", "stored in member %s" % l["m"], a)]
            return [("unknown", "operator " + sa["op"], a)]
        if k == "UnaryOperator":
            if sa["op"] in ("!",):
                return [("ok", "null test", a)]
            if sa["op"] in ("*", "++", "--"):
                return [("ok", "dereferenced / stepped", a)]
            return [("unknown", "operator " + sa["op"], a)]
        if k == "ReturnStmt":
            if fn.d.get("ret", "").replace(" ", "") in ("constchar*", "char*") and fn.name in RETURN_OK:
                return [("ok", "returned by a C-string accessor", a)]
            return [("unknown", "returned from %s" % fn.short, a)]
        if k == "DeclStmt":
            for d in sa["decls"]:
                if d.get("init") is not None and cur in list(fn.walk(d["init"])) or d.get("init") == cur:
                    return follow_local(fn, d["d"], visited)
            return [("unknown", "declaration", a)]
        if k in ("IfStmt", "WhileStmt", "ForStmt", "DoStmt"):
            return [("ok", "tested", a)]
        if k == "InitListExpr":
            cur = a
            continue
        if k == "CompoundStmt":
            return [("ok", "discarded", a)]
        return [("unknown", k, a)]
    return [("ok", "unused", i)]


def follow_local(fn, decl_id, visited):
    if decl_id in visited:
        return []
    visited.add(decl_id)
    out = []
    for j in fn.walk():
        st = fn.s(j)
        if st["k"] == "DeclRefExpr" and st["ref"]["d"] == decl_id:
            # skip the write side of assignments to the local itself
            p = fn.parent(j)
            if p is not None and fn.s(p)["k"] == "BinaryOperator" and fn.s(p)["op"] == "=" and fn.s(p)["c"][0] == j:
                continue
            out.extend(classify_use(fn, j, visited))
    return out or [("ok", "local never used", 0)]


def run(ctx, prog, rule="R-NUL", only_files=None):
    n = 0
    for fn in sorted(prog.fns.values(), key=lambda f: f.key):
        if only_files and not fn.file.startswith(tuple(only_files)):
            continue
        for i in fn.walk():
            sk = source_kind(fn, i)
            if not sk:
                continue
            n += 1
            for verdict, what, at in classify_use(fn, i):
                if verdict == "ok":
                    ctx.ob(rule, "%s: %s %s" % (fn.short, sk, what), True, fn.loc(i), "", nontrivial=(what == "passed with its length"))
                    continue
                callee_last = what.split("::")[-1]
                inst = "%s: %s -> %s" % (fn.short, sk, callee_last if verdict == "narrow" else what)
                if verdict == "narrow":
                    reason = ALLOWED.get((fn.short, callee_last))
                    if reason:
                        ctx.ob(rule, inst, True, fn.loc(i), "allowed: " + reason)
                    else:
                        ctx.ob(rule, inst, False, fn.loc(at),
                               "sized string narrowed to zero-terminated: %s is passed to %s without its "
                               "length: %s" % (sk, what.replace("ArduinoJson::detail::", "").replace("ArduinoJson::", ""), fn.text(at)))
                else:
                    ctx.ob(rule, inst, None, fn.loc(at), "use of %s not understood: %s" % (sk, what))
    ctx.floor(rule, "sized-string pointer sources", n, 40 if not only_files else 3)
