"""R-NULLDATA — an unbound or unallocated value is a null VariantData*.

`VariantAttorney::getData(x)` is null for an unbound reference (a missing
member, a default-constructed JsonVariant) and `getOrCreateData(x)` is null
when the member could not be created (allocation failure).  In the
serialization / deserialization entry points a local initialised from one of
them is dereferenced (`*data`, `data->...`) only where a non-null test of
that local held on every path (forward must-analysis); handing it to the
null-tolerant static helpers of VariantData is fine.  Otherwise
measureJson(doc["missing"]) or deserializeJson(doc["new"], …) under memory
pressure dereferences null instead of answering 4 / NoMemory.
"""
from lib import prog as P
from lib import typestate

FILES = ("Serialization/", "Deserialization/")
SOURCES = ("getData", "getOrCreateData")


def run(ctx, prog, rule="R-NULLDATA", files=FILES):
    n = 0
    for fn in sorted(prog.fns.values(), key=lambda f: f.key):
        if fn.cfg is None or not fn.file.startswith(files):
            continue
        cands = {}
        for i in fn.walk():
            st = fn.s(i)
            if st["k"] == "DeclStmt":
                for d in st["decls"]:
                    if "init" not in d:
                        continue
                    ini = fn.s(fn.strip(d["init"], casts=True))
                    if ini["k"] in P.CALL_KINDS and ini.get("callee", {}).get("q", "").split("::")[-1] in SOURCES and \
                            "VariantAttorney" in ini["callee"]["q"]:
                        cands[d["d"]] = d["n"]
        for d, name in sorted(cands.items()):
            derefs = []
            for i in fn.walk():
                st = fn.s(i)
                tgt = None
                if st["k"] == "UnaryOperator" and st["op"] == "*":
                    tgt = st["c"][0]
                elif st["k"] == "MemberExpr" and st.get("arrow") and st["c"]:
                    tgt = st["c"][0]
                if tgt is None:
                    continue
                b = fn.s(fn.strip(tgt, casts=True))
                if b["k"] == "DeclRefExpr" and b["ref"]["d"] == d:
                    derefs.append(i)
            if not derefs:
                continue
            n += 1

            def transfer(fn_, e, s_):
                st = fn_.s(e)
                if st["k"] == "DeclStmt" and any(dd["d"] == d for dd in st["decls"]):
                    return ("unknown",)
                if st["k"] == "BinaryOperator" and st["op"] == "=":
                    l = fn_.s(fn_.strip(st["c"][0], casts=True))
                    if l["k"] == "DeclRefExpr" and l["ref"]["d"] == d:
                        return ("unknown",)
                return (s_,)

            def branch(fn_, cond, pol, s_):
                if isinstance(cond, tuple):
                    return s_
                c = fn_.s(fn_.strip(cond, casts=True))
                neg = False
                while c["k"] == "UnaryOperator" and c["op"] == "!":
                    neg = not neg
                    c = fn_.s(fn_.strip(c["c"][0], casts=True))
                if c["k"] == "DeclRefExpr" and c["ref"]["d"] == d:
                    return "nonnull" if pol != neg else "null"
                if c["k"] == "BinaryOperator" and c["op"] in ("==", "!="):
                    sides = [fn_.s(fn_.strip(x, casts=True)) for x in c["c"]]
                    if any(x["k"] == "DeclRefExpr" and x["ref"]["d"] == d for x in sides) and \
                            any(x["k"] in ("CXXNullPtrLiteralExpr", "GNUNullExpr") or x.get("cv") == "0" for x in sides):
                        isnull = (c["op"] == "==") == (pol != neg)
                        return "null" if isnull else "nonnull"
                return s_
            dset = set(derefs)

            def check(fn_, e, s_):
                if e in dset and s_ != "nonnull":
                    return "dereferenced while it may be null"
                return None
            reports, _x, err = typestate.analyse(fn, "unknown", transfer, branch, check)
            ok = None if err else not reports
            ctx.ob(rule, "%s: %s is dereferenced only where it is known to be non-null" % (fn.short.split("<")[0], name), ok,
                   fn.where if not reports else fn.loc(reports[0][0]),
                   "%d dereference(s), each after a non-null test" % len(derefs) if ok else
                   "%s comes from VariantAttorney::%s, which is null for an unbound value or a failed allocation, and is dereferenced (%s) on a "
                   "path where no non-null test held" % (name, "/".join(SOURCES), fn.text(reports[0][0])[:60] if reports else err))
    ctx.floor(rule, "locals from getData/getOrCreateData that are dereferenced", n, 1)
    ctx.doc(rule, __doc__.strip().split("\n\n")[1].replace("\n", " "))
