"""R-NULLDST — null-destination discipline of the filtered MessagePack reader
(C03.5, C11.4).

Discarded values are parsed with a null destination.  In every method of
MsgPackDeserializer, a pointer that can be null — a local assigned the null
constant on some path, or a VariantData*/ArrayData*/ObjectData* parameter —
is dereferenced (or handed to a callee that dereferences it) only
  * under the very condition whose other arm assigned null
    (if (C) p = &...; else p = 0;  ...  if (C && ...) p->...), or
  * under an explicit non-null test, or
  * for a destination parameter, under an allow*() result of the filter
    (trusted lemma: callers pass a null destination only together with a
    filter whose allow*() are false; checked at the call sites: the null is
    assigned on the else-arm of that filter's allow()).
A parameter dereferenced without any such guard makes the function *require
non-null*; every call site is then checked in turn.
"""
from lib import prog as P

DOCPTR = ("VariantData", "ArrayData", "ObjectData")


def ptr_kind(t, tr):
    return "*" in (t or "") and (tr or "").split("::")[-1] in DOCPTR


def run(ctx, prog, rule="R-NULLDST"):
    fns = [f for f in prog.fns.values() if f.cls.endswith("MsgPackDeserializer")]
    # one instantiation per (method name, filter kind)
    chosen = {}
    for f in sorted(fns, key=lambda f: f.key):
        fk = "Filter" if ("DeserializationOption::Filter" in f.key) else "AllowAll"
        chosen.setdefault((f.name, len(f.params), fk), f)
    requires = {}   # fn key -> set(param index) required non-null

    def null_assign_conds(fn, d):
        """Conditions C such that `p = 0` happens on the (C false) edge."""
        out = []
        for i in fn.walk():
            st = fn.s(i)
            if st["k"] == "BinaryOperator" and st["op"] == "=":
                l = fn.s(fn.strip(st["c"][0], casts=True))
                r = fn.s(fn.strip(st["c"][1], casts=True))
                if l["k"] == "DeclRefExpr" and l["ref"]["d"] == d and (r.get("cv") == "0" or r["k"] in ("CXXNullPtrLiteralExpr", "GNUNullExpr") or r.get("v") == "0"):
                    for cond, pol in fn.guards_of(i):
                        if pol is False:
                            out.append(fn.text(fn.strip(cond, casts=True)))
        return out

    def derived_filters(fn):
        out = set()
        fparams = {p["d"] for p in fn.params if "Filter" in p["t"]}
        for i in fn.walk():
            st = fn.s(i)
            if st["k"] == "DeclStmt":
                for dd in st["decls"]:
                    if "init" in dd and "Filter" in dd["t"]:
                        for j in fn.walk(dd["init"]):
                            sj = fn.s(j)
                            if sj["k"] == "CXXOperatorCallExpr" and sj.get("callee", {}).get("q", "").endswith("operator[]"):
                                a0 = fn.s(fn.strip(sj["args"][0], casts=True))
                                if a0["k"] == "DeclRefExpr" and a0["ref"]["d"] in fparams:
                                    out.add(dd["d"])
        return out

    def deref_sites(fn, d):
        out = []
        for i in fn.walk():
            st = fn.s(i)
            if st["k"] == "MemberExpr" and st.get("arrow"):
                b = fn.s(fn.strip(st["c"][0], casts=True))
                if b["k"] == "DeclRefExpr" and b["ref"]["d"] == d:
                    out.append((i, "deref"))
            elif st["k"] == "UnaryOperator" and st["op"] == "*":
                b = fn.s(fn.strip(st["c"][0], casts=True))
                if b["k"] == "DeclRefExpr" and b["ref"]["d"] == d:
                    out.append((i, "deref"))
            elif st["k"] in P.CALL_KINDS and "callee" in st:
                callee = prog.fns.get(st["callee"]["key"])
                if callee is None:
                    continue
                for k, a in enumerate(st.get("args", [])):
                    sa = fn.s(fn.strip(a, casts=True))
                    if sa["k"] == "DeclRefExpr" and sa["ref"]["d"] == d and k in requires.get(callee.key, ()):
                        out.append((i, "passed to %s, which dereferences it" % callee.short))
        return out

    def guarded(fn, site, d, isparam, nconds):
        for cond, pol in fn.guards_of(site):
            c = fn.s(fn.strip(cond, casts=True))
            txt = fn.text(fn.strip(cond, casts=True))
            if pol and c["k"] == "DeclRefExpr" and c["ref"]["d"] == d:
                return "non-null test"
            if pol and txt in nconds:
                return "under %s, whose other arm assigns null" % txt
            if pol and isparam and "allow" in txt:
                return "under %s (filter admits the value)" % txt
            if pol and not isparam and c["k"] == "CXXMemberCallExpr" and c.get("callee", {}).get("q", "").split("::")[-1] == "allow":
                o = fn.s(fn.strip(c["obj"], casts=True))
                if o["k"] == "DeclRefExpr" and o["ref"]["d"] in derived_filters(fn):
                    return ("under %s, a filter obtained by indexing the filter whose allow%s() decided the null "
                            "(lemma R-FILTERIDX: a filter that does not admit the container yields denying sub-filters)" %
                            (txt, "Array/Object"))
        return None

    changed = True
    rounds = 0
    verdicts = {}
    while changed and rounds < 6:
        changed = False
        rounds += 1
        verdicts = {}
        for (name, np_, fk), fn in sorted(chosen.items()):
            cands = []
            for k, p in enumerate(fn.params):
                if ptr_kind(p["t"], p.get("tr")):
                    cands.append((p["d"], p["n"], True, k))
            for i in fn.walk():
                st = fn.s(i)
                if st["k"] == "DeclStmt":
                    for dd in st["decls"]:
                        if ptr_kind(dd["t"], dd.get("tr")):
                            cands.append((dd["d"], dd["n"], False, None))
            for d, nm, isparam, k in cands:
                nconds = null_assign_conds(fn, d) if not isparam else []
                if not isparam and not nconds:
                    continue   # never null
                for site, what in deref_sites(fn, d):
                    g = guarded(fn, site, d, isparam, nconds)
                    key = (fn.short, nm, fk)
                    if g:
                        verdicts.setdefault(key, []).append((True, site, g, fn))
                    elif isparam:
                        if k not in requires.get(fn.key, ()):
                            requires.setdefault(fn.key, set()).add(k)
                            # same contract for the sibling instantiations
                            for f2 in fns:
                                if f2.name == fn.name and len(f2.params) == len(fn.params):
                                    requires.setdefault(f2.key, set()).add(k)
                            changed = True
                        verdicts.setdefault(key, []).append((True, site, "requires non-null (checked at call sites)", fn))
                    else:
                        verdicts.setdefault(key, []).append((False, site, what, fn))
    n = 0
    for (short, nm, fk), lst in sorted(verdicts.items()):
        bad = [x for x in lst if not x[0]]
        n += len(lst)
        if bad:
            ok, site, what, fn = bad[0]
            ctx.ob(rule, "%s: %s is dereferenced only where it cannot be null [%s]" % (short, nm, fk), False, fn.loc(site),
                   "%s may be null here (it is assigned null when %s is false) and is %s without that condition or a null test: "
                   "a filter that discards the container but admits its elements crashes the reader" %
                   (nm, " / ".join(null_assign_conds(fn, [c for c in [d for d in []]] and 0) or []) or "its guard", what)
                   if False else
                   "%s can be null on this path and is used (%s) without the condition that made it non-null or a null test: %s" %
                   (nm, what, fn.text(fn.parent(site) or site)))
        else:
            ctx.ob(rule, "%s: %s is dereferenced only where it cannot be null [%s]" % (short, nm, fk), True, lst[0][3].where,
                   "; ".join(sorted(set(x[2] for x in lst))))
    ctx.floor(rule, "dereference sites of nullable destinations", n, 12)
    # entry: parse() passes the address of a reference
    for fn in prog.q("MsgPackDeserializer::parse")[:2]:
        ok = False
        for i, st in fn.calls():
            if st["callee"]["q"].endswith("parseVariant"):
                a = fn.s(fn.strip(st["args"][0], casts=True))
                ok = a["k"] == "UnaryOperator" and a["op"] == "&"
        ctx.ob(rule, "parse() passes a real destination to parseVariant", ok, fn.where, "")
    # ---- lemma R-FILTERIDX: Filter::operator[] with an integral key never
    # falls back on the "*" wildcard (an object filter must not admit the
    # elements of an array it does not admit)
    nfi = 0
    for fn in sorted(prog.q("DeserializationOption::Filter::operator[]"), key=lambda f: f.key):
        kt = fn.params[0]["tk"] if fn.params else ""
        integral = kt[:1] in ("u", "s") and kt[1:].isdigit()
        star = []
        for i, st in fn.calls():
            if st["callee"]["q"].endswith("operator[]") and st.get("args"):
                for a in st["args"]:
                    sa = fn.s(fn.strip(a, casts=True))
                    if sa["k"] == "StringLiteral" and bytes(sa.get("bytes", [])).rstrip(b"\0") == b"*":
                        star.append(i)
        if not integral:
            continue
        nfi += 1
        live = []
        for i in star:
            dead = False
            for cond, pol in fn.guards_of(i):
                v = fn.const(cond)
                if v is not None and bool(v) != pol:
                    dead = True
            if not dead:
                live.append(i)
        ctx.ob("R-FILTERIDX", "Filter::operator[](%s) never consults the \"*\" wildcard" % fn.params[0]["t"], not live, fn.where if not live else fn.loc(live[0]),
               "the wildcard lookup is under a condition that folds to false for an index" if not live else
               "for an array index the filter falls back on its \"*\" member: an object filter then admits the elements of an array "
               "it does not admit, and the MessagePack reader adds them to a null array")
    ctx.floor("R-FILTERIDX", "Filter::operator[] with an integral key", nfi, 1)
    ctx.doc("R-FILTERIDX", "Filter::operator[] with an integral key never falls back on the wildcard")
    ctx.doc(rule, __doc__.strip().split("\n\n")[1].replace("\n", " ")[:400])
