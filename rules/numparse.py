"""Structural clauses of parseNumber and of float storage/printing (C12; the
string clause of C13 goes through the same code).

R-EXPCUT      early returns inside the exponent digit loop of parseNumber.
              The exponent is accumulated as a magnitude x; its sign is a
              flag f applied after the loop (x = -x under f); another local
              `off` counts the digits moved across the decimal point.  Each
              return of a constant inside that loop is reached under a guard
              a*x + b*off > K and under f / !f.  With LIM = exponent_max - 8
              (the property's 1e+-300 for doubles) and D = decimal digits of
              the largest mantissa:
                return 0 under f:    a = +1, b = -1, K >= LIM + D - 1
                return inf under !f: a = +1, b = +1, K >= LIM, mantissa != 0
                return 0 under !f:   mantissa == 0
              A return whose guard does not know f must satisfy both rows,
              which no single guard does.
R-FLOATPATH   when doubles are enabled, a result computed in single precision
              (make_float with a float mantissa) is returned only under a
              dominating !isinf(result) test, or under bounds M on the
              mantissa and E on the exponent with M * 10^E <= FLT_MAX.
R-NARROWPRINT a double is stored in the 4-byte Float kind when the conversion
              is lossless; the serializer chooses the number of decimal
              places from the stored width.  Unless both widths print with
              the same places, a double that a float holds exactly is printed
              with the float's places, outside the accuracy stated for
              doubles.
"""
from fractions import Fraction

from lib import prog as P
from rules import tags

FLT_MAX = (2 - Fraction(1, 1 << 23)) * Fraction(2) ** 127


def linear(fn, i, syms):
    """Linear form {decl id: coeff, None: const} of expression i, or None."""
    i = fn.strip(i, casts=True)
    st = fn.s(i)
    c = fn.const(i)
    if c is None and "cv" in st and st["k"] != "DeclRefExpr":
        c = int(st["cv"])
    if c is not None:
        return {None: int(c)}
    if st["k"] == "DeclRefExpr" and st["ref"]["k"] in ("local", "parm"):
        return {st["ref"]["d"]: 1}
    if st["k"] == "BinaryOperator" and st["op"] in ("+", "-"):
        a, b = linear(fn, st["c"][0], syms), linear(fn, st["c"][1], syms)
        if a is None or b is None:
            return None
        out = dict(a)
        for k, v in b.items():
            out[k] = out.get(k, 0) + (v if st["op"] == "+" else -v)
        return out
    if st["k"] == "UnaryOperator" and st["op"] == "-":
        a = linear(fn, st["c"][0], syms)
        return None if a is None else {k: -v for k, v in a.items()}
    return None


def ret_class(fn, r):
    """'zero' / 'inf' / None for a return statement of a constant."""
    names = set()
    lits = []
    for j in fn.walk(r):
        sj = fn.s(j)
        if sj["k"] in P.CALL_KINDS and "callee" in sj:
            names.add(sj["callee"]["q"].split("::")[-1])
        if sj["k"] == "FloatingLiteral":
            lits.append(sj.get("v"))
        if sj["k"] == "DeclRefExpr" and sj["ref"]["k"] in ("local", "parm") and sj.get("tk") not in ("bool",):
            return None
    if "inf" in names:
        return "inf"
    if "nan" in names:
        return None
    if lits and all(float(v) == 0.0 for v in lits):
        return "zero"
    return None


def expand_bool(fn, cond, pol, out, depth=0):
    """guards through a local bool with a single initialiser."""
    c = fn.s(fn.strip(cond, casts=True))
    if depth > 3 or c["k"] != "DeclRefExpr" or c["ref"]["k"] != "local" or c.get("tk") != "bool":
        return
    d = c["ref"]["d"]
    init = None
    for i in fn.walk():
        st = fn.s(i)
        if st["k"] == "DeclStmt":
            for dd in st["decls"]:
                if dd["d"] == d and "init" in dd:
                    init = dd["init"]
        if st["k"] in ("BinaryOperator", "CompoundAssignOperator") and st["op"].endswith("=") and st["op"] not in ("==", "!=", "<=", ">="):
            l = fn.s(fn.strip(st["c"][0], casts=True))
            if l["k"] == "DeclRefExpr" and l["ref"]["d"] == d:
                # reassigned: the value tested is that of the last assignment when it sits in the
                # same basic block as the test, before it, with no other assignment in between
                pc, pa = fn.block_of(cond), fn.block_of(i)
                if st["op"] == "=" and pc is not None and pa is not None and pc[0] == pa[0] and pa[1] < pc[1]:
                    later = False
                    for j in fn.walk():
                        sj = fn.s(j)
                        if j != i and sj["k"] in ("BinaryOperator", "CompoundAssignOperator") and sj["op"].endswith("=") and \
                                sj["op"] not in ("==", "!=", "<=", ">="):
                            lj = fn.s(fn.strip(sj["c"][0], casts=True))
                            pj = fn.block_of(j)
                            if lj["k"] == "DeclRefExpr" and lj["ref"]["d"] == d and pj is not None and pj[0] == pc[0] and pa[1] < pj[1] < pc[1]:
                                later = True
                    if not later:
                        reaching = st["c"][1]
                        sub = [(reaching, pol)]
                        fn._split_logical(reaching, pol, sub)
                        for cc, pp in sub:
                            out.append((cc, pp))
                            expand_bool(fn, cc, pp, out, depth + 1)
                return      # otherwise not a pure abbreviation
    if init is None:
        return
    sub = [(init, pol)]
    fn._split_logical(init, pol, sub)
    for cc, pp in sub:
        out.append((cc, pp))
        expand_bool(fn, cc, pp, out, depth + 1)


def all_guards(fn, at):
    out = []
    for cond, pol in fn.guards_of(at):
        out.append((cond, pol))
        expand_bool(fn, cond, pol, out)
    return out


def parse_fns(prog):
    return [f for f in sorted(prog.q("detail::parseNumber"), key=lambda f: f.key)
            if len(f.params) == 1 and not f.d.get("targs") and f.cfg is not None]


def r_expcut(ctx, prog, rule="R-EXPCUT"):
    g = {}
    for x in prog.globals:
        if not x.get("dependent") and x.get("value") is not None and x["q"].endswith(("FloatTraits::exponent_max", "FloatTraits::mantissa_max")):
            g.setdefault(x["q"].split("::")[-1], []).append(int(x["value"]))
    nfn = 0
    for fn in parse_fns(prog):
        nfn += 1
        # x and f:  if (f) x = -x;
        xd = fd = None
        for i in fn.walk():
            st = fn.s(i)
            if st["k"] == "BinaryOperator" and st["op"] == "=":
                l = fn.s(fn.strip(st["c"][0], casts=True))
                r = fn.s(fn.strip(st["c"][1], casts=True))
                if l["k"] == "DeclRefExpr" and r["k"] == "UnaryOperator" and r["op"] == "-":
                    rr = fn.s(fn.strip(r["c"][0], casts=True))
                    if rr["k"] == "DeclRefExpr" and rr["ref"]["d"] == l["ref"]["d"]:
                        for cond, pol in fn.guards_of(i):
                            c = fn.s(fn.strip(cond, casts=True))
                            if c["k"] == "DeclRefExpr" and c.get("tk") == "bool" and pol:
                                xd, fd, neg_at = l["ref"]["d"], c["ref"]["d"], i
        if xd is None:
            ctx.ob(rule, "parseNumber: exponent magnitude and sign flag", None, fn.where, "no `if (flag) x = -x` found")
            continue
        # which traits: the JsonFloat ones = the largest exponent_max compared in this function
        emax = None
        for i in fn.walk():
            st = fn.s(i)
            if st["k"] == "DeclRefExpr" and st["ref"]["n"] == "exponent_max" and "cv" in fn.s(fn.parent(i) or i):
                v = int(fn.s(fn.parent(i))["cv"])
                emax = v if emax is None else max(emax, v)
        if emax is None:
            ctx.ob(rule, "parseNumber: exponent_max", None, fn.where, "exponent_max is not used")
            continue
        mmax = max([m for m in g.get("mantissa_max", [])] or [0]) if emax > 100 else min(g.get("mantissa_max", [0]) or [0])
        D = len(str(mmax)) if mmax else 20
        LIM = emax - 8
        # loops that accumulate x
        nret = 0
        for li in fn.walk():
            ls = fn.s(li)
            if ls["k"] not in ("WhileStmt", "ForStmt", "DoStmt") or ls.get("body") is None:
                continue
            body = set(fn.walk(ls["body"]))
            acc = False
            for j in body:
                sj = fn.s(j)
                if sj["k"] == "BinaryOperator" and sj["op"] == "=":
                    l = fn.s(fn.strip(sj["c"][0], casts=True))
                    if l["k"] == "DeclRefExpr" and l["ref"]["d"] == xd:
                        acc = True
            if not acc:
                continue
            for r in sorted(body):
                if fn.s(r)["k"] != "ReturnStmt":
                    continue
                cls = ret_class(fn, r)
                if cls is None:
                    continue
                nret += 1
                fpol = None
                mzero = None
                lins = []
                for cond, pol in all_guards(fn, r):
                    c = fn.s(fn.strip(cond, casts=True))
                    if c["k"] == "DeclRefExpr" and c["ref"]["d"] == fd:
                        fpol = pol      # the flag is loop-invariant: a test outside the loop counts
                        continue
                    if fn.strip(cond, casts=True) not in body and cond not in body:
                        continue
                    if False:
                        pass
                    elif c["k"] == "BinaryOperator" and c["op"] in ("==", "!=") and fn.const(c["c"][1]) == 0:
                        a = fn.s(fn.strip(c["c"][0], casts=True))
                        if a["k"] == "DeclRefExpr" and a["ref"]["n"].startswith("mantissa"):
                            mzero = (c["op"] == "==") == pol
                    elif c["k"] == "BinaryOperator" and c["op"] in (">", ">=", "<", "<="):
                        la, lb = linear(fn, c["c"][0], None), linear(fn, c["c"][1], None)
                        if la is None or lb is None:
                            continue
                        lf = dict(la)
                        for k, v in lb.items():
                            lf[k] = lf.get(k, 0) - v
                        op = c["op"]
                        if not pol:
                            op = {">": "<=", ">=": "<", "<": ">=", "<=": ">"}[op]
                        if op in ("<", "<="):
                            lf = {k: -v for k, v in lf.items()}
                            op = {"<": ">", "<=": ">="}[op]
                        K = -lf.pop(None, 0)
                        if op == ">=":
                            K -= 1
                        if xd in lf:
                            lins.append((lf, K, fn.text(fn.strip(cond, casts=True))))
                inst = "parseNumber: early `return %s` at line %s" % (cls, fn.loc(r).rsplit(":", 1)[-1])
                if cls == "zero" and fpol is False:
                    ok = mzero is True
                    ctx.ob(rule, inst, ok, fn.loc(r), "positive exponent: zero is returned only for a zero mantissa" if ok else
                           "0 is returned for a literal with a positive exponent and a mantissa that may be non-zero")
                    continue
                if not lins:
                    ctx.ob(rule, inst, None, fn.loc(r), "no linear guard on the exponent found for this return")
                    continue
                lf, K, txt = lins[-1]
                others = [k for k in lf if k != xd and lf[k] != 0]
                a = lf.get(xd, 0)
                b = lf[others[0]] if len(others) == 1 else 0
                if fpol is None:
                    ctx.ob(rule, inst, False, fn.loc(r),
                           "the guard `%s` is evaluated before the sign of the exponent is known, and this return is taken for %s exponents: "
                           "with a negative exponent the effective exponent is off - x, so the same guard cannot be right for both "
                           "(a 301-digit integer followed by e-300 is 10 but yields 0)" % (txt, "both" if cls == "zero" else "negative and positive"))
                    continue
                if cls == "zero":      # under f
                    need = LIM + D - 1
                    ok = a == 1 and b == -1 and K >= need
                    ctx.ob(rule, inst, ok, fn.loc(r),
                           "negative exponent: x - off > %d >= %d (= %d + %d mantissa digits - 1)" % (K, need, LIM, D) if ok else
                           "negative exponent: the guard `%s` (x coefficient %+d, offset coefficient %+d, bound %d) must be x - off > K with "
                           "K >= %d so that mantissa * 10^(off - x) < 1e-%d for every mantissa below 10^%d; otherwise an in-range literal "
                           "(e.g. 4503599627370495e-310 = 4.5e-295) becomes 0" % (txt, a, b, K, need, LIM, D))
                else:                   # inf
                    ok = fpol is False and a == 1 and b == 1 and K >= LIM and mzero is False
                    ctx.ob(rule, inst, ok, fn.loc(r),
                           "positive exponent: x + off > %d >= %d and the mantissa is not zero" % (K, LIM) if ok else
                           "infinity must be returned only for a positive exponent with x + off > K >= %d and a non-zero mantissa; here "
                           "sign flag=%s, guard `%s`, mantissa!=0 %s (0e309 is 0, not infinity)" %
                           (LIM, {True: "negative", False: "positive", None: "unknown"}[fpol], txt, "known" if mzero is False else "not established"))
        ctx.count(rule + ":early_returns", nret)
    ctx.floor(rule, "parseNumber(const char*)", nfn, 1)
    ctx.doc(rule, __doc__.split("R-EXPCUT")[1].split("R-FLOATPATH")[0].strip().replace("\n", " ")[:700])


def r_floatpath(ctx, prog, rule="R-FLOATPATH"):
    n = 0
    for fn in parse_fns(prog):
        calls = [(i, st) for i, st in fn.calls() if st["callee"]["q"].endswith("make_float")]
        f32 = [(i, st) for i, st in calls if st.get("tk") == "f32"]
        f64 = [(i, st) for i, st in calls if st.get("tk") == "f64"]
        if not f64:
            continue        # JsonFloat is float: the float result is the result
        for i, st in f32:
            n += 1
            # variable initialised with the call
            var = None
            for j in fn.walk():
                sj = fn.s(j)
                if sj["k"] == "DeclStmt":
                    for dd in sj["decls"]:
                        if "init" in dd and i in set(fn.walk(dd["init"])):
                            var = dd["d"]
            rets = []
            for r in fn.walk():
                sr = fn.s(r)
                if sr["k"] == "ReturnStmt" and (i in set(fn.walk(r)) or
                                                (var is not None and any(fn.s(x)["k"] == "DeclRefExpr" and fn.s(x)["ref"]["d"] == var for x in fn.walk(r)))):
                    rets.append(r)
            for r in rets:
                ok = False
                why = ""
                for cond, pol in all_guards(fn, r):
                    c = fn.s(fn.strip(cond, casts=True))
                    if c["k"] in P.CALL_KINDS and c.get("callee", {}).get("q", "").split("::")[-1] == "isinf" and pol is False:
                        a0 = fn.s(fn.strip(c["args"][0], casts=True)) if c.get("args") else {}
                        if a0.get("k") == "DeclRefExpr" and a0["ref"]["d"] == var:
                            ok = True
                            why = "returned only under !isinf(%s)" % a0["ref"]["n"]
                if not ok:
                    # bounds route
                    M = E = None
                    for cond, pol in all_guards(fn, i):
                        c = fn.s(fn.strip(cond, casts=True))
                        if c["k"] == "BinaryOperator" and c["op"] in (">", ">=") and pol is False:
                            k = fn.const(c["c"][1])
                            if k is None and "cv" in fn.s(c["c"][1]):
                                k = int(fn.s(c["c"][1])["cv"])
                            a0 = fn.s(fn.strip(c["c"][0], casts=True))
                            if k is None or a0["k"] != "DeclRefExpr":
                                continue
                            k = k if c["op"] == ">" else k - 1
                            if a0["ref"]["n"].startswith("mantissa"):
                                M = k if M is None else min(M, k)
                            elif a0["ref"]["n"].startswith("exponent"):
                                E = k if E is None else min(E, k)
                    if M is not None and E is not None:
                        ok = Fraction(M) * Fraction(10) ** E <= FLT_MAX
                        why = "mantissa <= %d and exponent <= %d: %s FLT_MAX" % (M, E, "product within" if ok else "%d * 10^%d = %.3g exceeds" % (M, E, float(M) * 10.0 ** E))
                    else:
                        why = "no bound on mantissa and exponent and no !isinf test"
                ctx.ob(rule, "parseNumber: single-precision result returned only when it is finite or provably in range", ok, fn.loc(r),
                       why if ok else why + ": a literal such as 5e38 (short mantissa, exponent <= 38) is computed as a float, overflows to "
                       "infinity and is returned although a double holds it")
    ctx.floor(rule, "single-precision make_float calls in parseNumber (double builds)", n, 0)
    ctx.count(rule + ":sites", n)
    ctx.doc(rule, __doc__.split("R-FLOATPATH")[1].split("R-NARROWPRINT")[0].strip().replace("\n", " "))


def r_narrowprint(ctx, prog, rule="R-NARROWPRINT"):
    T = tags.tag_table(prog)
    if "Double" not in T:
        ctx.count(rule + ":skipped_no_double_kind", 1)
        return
    narrowing = None
    for fn in sorted(prog.q("VariantData::setFloat"), key=lambda f: f.key):
        if not fn.params or fn.params[0].get("tk") != "f64":
            continue
        for i, t in tags.assigned_tags(fn, T):
            if t == "Float":
                narrowing = (fn, i)
    places = {}
    for fn in sorted(prog.q("TextFormatter::writeFloat"), key=lambda f: f.key):
        if len(fn.params) != 1:
            continue
        tk = fn.params[0].get("tk")
        for i, st in fn.calls():
            if st["callee"]["q"].endswith("writeFloat") and len(st.get("args", [])) == 2:
                v = fn.const(st["args"][1])
                if v is None and "cv" in fn.s(st["args"][1]):
                    v = int(fn.s(st["args"][1])["cv"])
                if v is not None:
                    places[tk] = (int(v), fn)
    if "f32" not in places or "f64" not in places:
        ctx.ob(rule, "decimal places per stored width", None, "Json/TextFormatter.hpp", "writeFloat<float>/<double> not found: %s" % sorted(places))
        return
    p32, p64 = places["f32"][0], places["f64"][0]
    if narrowing is None:
        ctx.ob(rule, "a double keeps the precision it is printed with", True, "Variant/VariantImpl.hpp", "setFloat(double) never stores into the Float kind")
    else:
        fn, i = narrowing
        ok = p32 >= p64
        ctx.ob(rule, "a double keeps the precision it is printed with", ok, fn.loc(i),
               "Float and Double kinds print with the same places" if ok else
               "setFloat(double) stores a double that converts to float without loss in the 4-byte Float kind, and the serializer prints that "
               "kind with %d places instead of %d: 1234567.125 (a double) is printed as 1234567 and 16777218.0 as 1.677722e7, outside the "
               "1e-9 accuracy stated for doubles" % (p32, p64))
    ctx.doc(rule, __doc__.split("R-NARROWPRINT")[1].strip().replace("\n", " "))


def run(ctx, prog):
    r_nowrap(ctx, prog)
    r_narrowcmp(ctx, prog)
    r_expcut(ctx, prog)
    r_floatpath(ctx, prog)
    r_narrowprint(ctx, prog)


def r_narrowcmp(ctx, prog, rule="R-NARROWCMP", files=("Numbers/",)):
    """No comparison decides on a truncated value: an operand of < <= > >= == !=
    that is an integral conversion to a narrower type must have a source whose
    range fits the target (interval evaluation, rules/shift.py); otherwise
    the decision is taken on the low bits only (a 10-digit mantissa compared
    as 32 bits selects the single-precision path)."""
    from rules import shift
    B = shift.Bounds(prog)
    n = 0
    seen = set()
    for fn in sorted(prog.fns.values(), key=lambda f: f.key):
        if not fn.file.startswith(files) or fn.cfg is None:
            continue
        for i in fn.walk():
            st = fn.s(i)
            if st["k"] != "BinaryOperator" or st["op"] not in ("<", "<=", ">", ">=", "==", "!="):
                continue
            for opnd in st["c"]:
                # outermost conversions of the operand
                j = opnd
                while j is not None and j >= 0:
                    sj = fn.s(j)
                    if sj["k"] in P.TRANSPARENT or sj["k"] in P.EXPLICIT_CASTS:
                        if sj.get("ck") == "IntegralCast" or (sj["k"] in P.EXPLICIT_CASTS and sj.get("ck") in ("IntegralCast", "NoOp")):
                            inner = fn.s(sj["c"][0]) if sj["c"] else {}
                            fk, tk = sj.get("fromk") or inner.get("tk", ""), sj.get("tk", "")
                            fr_, tr_ = shift.type_range(fk), shift.type_range(tk)
                            if fr_ and tr_ and (fr_[0] < tr_[0] or fr_[1] > tr_[1]) and sj.get("ck") == "IntegralCast":
                                if fn.const(sj["c"][0]) is None and "cv" not in fn.s(sj["c"][0]):
                                    key = (fn.short, fn.loc(j), fn.text(j))
                                    if key not in seen:
                                        seen.add(key)
                                        n += 1
                                        r = B.ev(fn, sj["c"][0], i)
                                        ok = r is not None and tr_[0] <= r[0] and r[1] <= tr_[1]
                                        ctx.ob(rule, "%s: %s keeps its value" % (fn.short, fn.text(j)[:50]), ok, fn.loc(j),
                                               "source in [%d, %d] fits %s" % (r[0], r[1], tk) if ok else
                                               "the comparison `%s` is decided on %s converted from %s to %s: values above %d lose their high "
                                               "bits first, so the branch taken does not follow the value" %
                                               (fn.text(i)[:80], fn.text(sj["c"][0])[:40], fk, tk, tr_[1]))
                        j = sj["c"][0] if sj["c"] else None
                    else:
                        break
    ctx.count(rule + ":sites", n)
    ctx.doc(rule, r_narrowcmp.__doc__.strip().replace("\n", " "))


def r_nowrap(ctx, prog, rule="R-NOWRAP"):
    """The unsigned accumulations of parseNumber never wrap: for every + and *
    of the mantissa's (unsigned) type, the interval of the result — operands
    bounded by their dominating guards — stays within the type, or the
    operation is x*k + d under the dominating guard !(x > (M - d)/k), which
    bounds it by M exactly.  A wrapped mantissa is a finite value of the
    wrong magnitude."""
    from rules import shift
    B = shift.Bounds(prog)
    n = 0
    for fn in parse_fns(prog):
        for i in fn.walk():
            st = fn.s(i)
            if st["k"] not in ("BinaryOperator", "CompoundAssignOperator") or st["op"] not in ("+", "*", "+=", "*="):
                continue
            tk = st.get("tk", "")
            if st["k"] == "CompoundAssignOperator":
                tk = fn.s(st["c"][0]).get("tk", tk)
            if not (tk[:1] == "u" and tk[1:].isdigit() and int(tk[1:]) >= 32):
                continue
            # only top-level arithmetic (x*k + d is judged as a whole)
            par = fn.parent(i)
            while par is not None and (fn.s(par)["k"] in P.TRANSPARENT or fn.s(par)["k"] in P.EXPLICIT_CASTS):
                par = fn.parent(par)
            if par is not None and fn.s(par)["k"] == "BinaryOperator" and fn.s(par)["op"] in ("+", "*") and fn.s(par).get("tk") == tk:
                continue
            if fn.const(i) is not None or "cv" in st:
                continue
            n += 1
            tmax = (1 << int(tk[1:])) - 1
            l0 = fn.s(fn.strip(st["c"][0], casts=True))
            if st["op"] == "+" and l0["k"] == "UnaryOperator" and l0["op"] == "~" and fn.const(st["c"][1]) == 1:
                ctx.ob(rule, "parseNumber: `%s` cannot wrap" % fn.text(i)[:50], True, fn.loc(i),
                       "~x + 1 is the two's-complement negation of x: modular arithmetic is the intent (idiom table)", nontrivial=False)
                continue
            a, b = B.ev(fn, st["c"][0], i), B.ev(fn, st["c"][1], i)
            hi = None
            if a is not None and b is not None:
                hi = a[1] + b[1] if st["op"] in ("+", "+=") else a[1] * b[1]
            ok = hi is not None and hi <= tmax
            why = "result at most %s" % hi if ok else ""
            if not ok:
                # lemma: x*k + d  under  !(x > (M - d)/k)
                lem = mul_add_lemma(fn, i, st)
                if lem is not None and lem <= tmax:
                    ok = True
                    why = "x*k + d under the guard x <= (M - d)/k: at most M = %d" % lem
            ctx.ob(rule, "parseNumber: `%s` cannot wrap" % fn.text(i)[:50], ok, fn.loc(i),
                   why if ok else
                   "the operands of `%s` (%s) are not bounded by any dominating guard: the result can exceed %d and wrap around, "
                   "leaving a small mantissa for a large literal" % (fn.text(i)[:60], tk, tmax))
    ctx.count(rule + ":sites", n)
    ctx.doc(rule, r_nowrap.__doc__.strip().replace("\n", " "))


def const_of(fn, e):
    M = fn.const(e)
    if M is None and "cv" in fn.s(e):
        M = int(fn.s(e)["cv"])
    if M is None:
        mm = fn.s(fn.strip(e, casts=True))
        if mm["k"] == "DeclRefExpr":
            for q in fn.walk():
                sq = fn.s(q)
                if sq["k"] == "DeclStmt":
                    for dd in sq["decls"]:
                        if dd["d"] == mm["ref"]["d"] and "init" in dd:
                            M = fn.const(dd["init"])
                            if M is None and "cv" in fn.s(dd["init"]):
                                M = int(fn.s(dd["init"])["cv"])
    return None if M is None else int(M)


def simple_lemmas(fn, i, st):
    """x + d under !(x > M - d)  ->  <= M ;  x * k under !(x > M / k)  ->  <= M"""
    op = st["op"].rstrip("=") if st["k"] == "CompoundAssignOperator" else st["op"]
    x = fn.s(fn.strip(st["c"][0], casts=True))
    if x["k"] != "DeclRefExpr":
        return None
    other = fn.strip(st["c"][1], casts=True)
    for cond, pol in all_guards(fn, i):
        c = fn.s(fn.strip(cond, casts=True))
        if c["k"] != "BinaryOperator" or not ((c["op"] == ">" and pol is False) or (c["op"] == "<=" and pol is True)):
            continue
        l = fn.s(fn.strip(c["c"][0], casts=True))
        r = fn.s(fn.strip(c["c"][1], casts=True))
        if l["k"] != "DeclRefExpr" or l["ref"]["d"] != x["ref"]["d"] or r["k"] != "BinaryOperator":
            continue
        M = const_of(fn, r["c"][0])
        if M is None:
            continue
        if op == "+" and r["op"] == "-" and fn.text(fn.strip(r["c"][1], casts=True)) == fn.text(other):
            return M
        if op == "*" and r["op"] == "/" and fn.const(r["c"][1]) is not None and fn.const(r["c"][1]) == fn.const(other):
            return M
    return None


def mul_add_lemma(fn, i, st):
    sl = simple_lemmas(fn, i, st)
    if sl is not None:
        return sl
    if st["op"] != "+":
        return None
    m = fn.s(fn.strip(st["c"][0], casts=True))
    dtxt = fn.text(fn.strip(st["c"][1], casts=True))
    if m["k"] != "BinaryOperator" or m["op"] != "*":
        return None
    x = fn.s(fn.strip(m["c"][0], casts=True))
    k = fn.const(m["c"][1])
    if x["k"] != "DeclRefExpr" or k is None:
        return None
    for cond, pol in all_guards(fn, i):
        c = fn.s(fn.strip(cond, casts=True))
        if c["k"] != "BinaryOperator" or not ((c["op"] == ">" and pol is False) or (c["op"] == "<=" and pol is True)):
            continue
        l = fn.s(fn.strip(c["c"][0], casts=True))
        r = fn.s(fn.strip(c["c"][1], casts=True))
        if l["k"] != "DeclRefExpr" or l["ref"]["d"] != x["ref"]["d"]:
            continue
        if r["k"] == "BinaryOperator" and r["op"] == "/" and fn.const(r["c"][1]) == k:
            num = fn.s(fn.strip(r["c"][0], casts=True))
            if num["k"] == "BinaryOperator" and num["op"] == "-":
                M = fn.const(num["c"][0])
                if M is None:
                    # a const local
                    mm = fn.s(fn.strip(num["c"][0], casts=True))
                    if mm["k"] == "DeclRefExpr":
                        for q in fn.walk():
                            sq = fn.s(q)
                            if sq["k"] == "DeclStmt":
                                for dd in sq["decls"]:
                                    if dd["d"] == mm["ref"]["d"] and "init" in dd:
                                        M = fn.const(dd["init"])
                                        if M is None and "cv" in fn.s(dd["init"]):
                                            M = int(fn.s(dd["init"])["cv"])
                if M is not None and fn.text(fn.strip(num["c"][1], casts=True)) == dtxt:
                    return int(M)
    return None
