"""R-ONCEFREE — a slot / string node / block is released at most once on any
path (forward typestate, all functions of the library).

Release operations are resolved by callee: ResourceManager::freeVariant /
freeExtension, MemoryPoolList::freeSlot, ResourceManager::destroyString,
StringNode::destroy, MemoryPool::destroy and Allocator::deallocate.  The state
is the set of released handles, a handle being the canonical text of the
released expression (first argument, or the object for MemoryPool::destroy).
A handle is forgotten when any variable or field it mentions is assigned,
incremented, re-declared, has its address taken, is the object of a non-const
method call (not through a pointer) or is bound to a non-const reference
parameter.  Releasing a handle that
is still in the set is refuted: pushing one slot twice on the free list makes
the list cyclic (every later allocation returns the same slot), releasing a
block twice is undefined behaviour in the user's allocator.
"""
from lib import prog as P
from lib import typestate

RELEASE = {
    "ResourceManager::freeVariant": "arg", "ResourceManager::freeExtension": "arg",
    "MemoryPoolList::freeSlot": "arg", "ResourceManager::destroyString": "arg",
    "StringNode::destroy": "arg", "MemoryPool::destroy": "obj", "Allocator::deallocate": "arg",
}


def release_kind(st):
    q = st.get("callee", {}).get("q", "")
    q2 = "::".join(p.split("<")[0] for p in q.split("::")[-2:])
    return RELEASE.get(q2)


def mentions(fn, i):
    out = set()
    for j in fn.walk(i):
        sj = fn.s(j)
        if sj["k"] == "DeclRefExpr":
            out.add(("d", sj["ref"]["d"]))
        elif sj["k"] == "MemberExpr":
            out.add(("m", sj.get("m")))
    return frozenset(out)


def handle_of(fn, st):
    kind = release_kind(st)
    if kind == "obj":
        e = st.get("obj")
    else:
        args = st.get("args", [])
        e = args[0] if args else None
    if e is None:
        return None
    return (fn.text(e), mentions(fn, e))


def run(ctx, prog, rule="R-ONCEFREE"):
    nsites = 0
    nfn = 0
    for fn in sorted(prog.fns.values(), key=lambda f: f.key):
        sites = [(i, st) for i, st in fn.calls() if release_kind(st)]
        if not sites:
            continue
        nfn += 1
        nsites += len(sites)
        if fn.cfg is None:
            ctx.ob(rule, "%s: releases each handle once" % fn.short, None, fn.where, "no CFG")
            continue
        site_ids = {i for i, _ in sites}

        def killed_by(fn_, e):
            st = fn_.s(e)
            tgt = None
            if st["k"] in ("BinaryOperator", "CompoundAssignOperator") and st["op"].endswith("=") and st["op"] not in ("==", "!=", "<=", ">="):
                tgt = st["c"][0]
            elif st["k"] == "UnaryOperator" and st["op"] in ("++", "--", "&"):
                tgt = st["c"][0]
            elif st["k"] == "CXXOperatorCallExpr" and st.get("callee", {}).get("q", "").split("::")[-1] in ("operator=", "operator++", "operator--"):
                a = st.get("args", [])
                tgt = a[0] if a else None
            if tgt is not None:
                return mentions(fn_, tgt) or frozenset([("?", 0)])
            if st["k"] == "DeclStmt":
                return frozenset(("d", dd["d"]) for dd in st["decls"])
            if st["k"] in P.CALL_KINDS and e not in site_ids:
                out = set()
                # a non-const method called on the object itself (not through a pointer) may re-seat it
                if st["k"] == "CXXMemberCallExpr" and "obj" in st and fn_.s(st["obj"]).get("tk") != "ptr" \
                        and not st.get("callee", {}).get("key", "").endswith(" const"):
                    out |= mentions(fn_, st["obj"])
                # an argument bound to a non-const reference parameter may be re-seated by the callee
                callee = prog.fns.get(st.get("callee", {}).get("key"))
                if callee is not None:
                    for idx, a in enumerate(st.get("args", [])):
                        if idx < len(callee.params):
                            t = callee.params[idx]["t"].strip()
                            if t.endswith("&") and not t.endswith("&&") and not t.startswith("const "):
                                out |= mentions(fn_, a)
                return frozenset(out)
            return frozenset()

        def transfer(fn_, e, s_):
            st = fn_.s(e)
            k = killed_by(fn_, e)
            if k:
                s_ = frozenset(h for h in s_ if not (h[1] & k))
            if e in site_ids:
                h = handle_of(fn_, st)
                if h is not None:
                    s_ = s_ | {h}
            return (s_,)

        def check(fn_, e, s_):
            if e in site_ids:
                h = handle_of(fn_, fn_.s(e))
                if h is not None and h in s_:
                    return "%s is released a second time" % h[0]
            return None
        reports, _x, err = typestate.analyse(fn, frozenset(), transfer, None, check)
        if err:
            ctx.ob(rule, "%s: releases each handle once" % fn.short, None, fn.where, err)
            continue
        if reports:
            e, _s, msg, path = reports[0]
            ctx.ob(rule, "%s: releases each handle once" % fn.short, False, fn.loc(e),
                   "%s on the path through blocks %s: a slot pushed twice makes the free list cyclic (later allocations alias), "
                   "a block freed twice is undefined behaviour in the allocator" % (msg, path))
        else:
            ctx.ob(rule, "%s: releases each handle once" % fn.short, True, fn.where,
                   "%d release site(s); no handle is released twice on any path" % len(sites))
    ctx.floor(rule, "release call sites", nsites, 12)
    ctx.doc(rule, __doc__.strip().replace("\n", " "))
