"""Typed write analysis on the AST (shared by C04.3, C06.6, C20).

W(f) = the direct writes of function f into *document-typed memory*:
  * assignment / compound assignment / ++ / -- whose l-value is a member of a
    document record (VariantData, VariantContent, CollectionData, ...,
    ResourceManager, MemoryPool*, StringPool, StringNode, slots) unless the
    object is a by-value local of the function;
  * the same through a local pointer/reference that was derived from such a
    member or from a call returning a pointer to a document record, when the
    pointee is not const ("derived pointer" taint, closes the char* gap);
  * memcpy/memmove/memset/strcpy whose destination mentions such memory;
  * placement-new of a document record;
  * constructor member-initialisers and bodies of document records count as
    writes of the constructor (a constructor call for a by-value local or a
    temporary is not an edge into it).
Read-only entry points must not reach any function with a non-empty W, nor
any Allocator method.
"""
from lib import prog as P

DOC_RECORDS = {
    "VariantData", "VariantContent", "VariantExtension", "CollectionData",
    "ArrayData", "ObjectData", "ResourceManager", "MemoryPool",
    "MemoryPoolList", "StringPool", "StringNode", "FreeSlot", "SlotData",
    "Slot", "JsonDocument", "CollectionIterator_", "Pool",
}

MEMWRITE_FUNCS = {"memcpy": 0, "memmove": 0, "memset": 0, "strcpy": 0,
                  "strncpy": 0, "memcpy_P": 0}


def is_doc_record(name):
    if not name:
        return False
    return name.split("::")[-1] in DOC_RECORDS


def lvalue_root(fn, i, tainted, depth=0, through=False):
    """Classify the object an l-value expression designates.
    returns ('doc', why) | ('local', name) | ('param', name) |
            ('global', q) | ('other', why)"""
    i = fn.strip(i, casts=True)
    st = fn.s(i)
    k = st["k"]
    ch = [c for c in st["c"] if c is not None and c >= 0]
    if depth > 40:
        return ("other", "deep")
    if k == "MemberExpr":
        if st.get("field") and is_doc_record(st.get("rec")):
            # base object: by-value local => local write
            base = fn.strip(ch[0], casts=True) if ch else None
            if base is not None and not st.get("arrow"):
                r = lvalue_root(fn, base, tainted, depth + 1)
                if r[0] == "local":
                    return r
            return ("doc", "%s::%s" % (st["rec"].split("::")[-1], st["m"]))
        if ch:
            return lvalue_root(fn, ch[0], tainted, depth + 1,
                               through or bool(st.get("arrow")))
        return ("other", "member")
    if k == "ArraySubscriptExpr":
        b0 = fn.s(fn.strip(ch[0]))
        isarr = b0.get("tk") == "arr"
        return lvalue_root(fn, ch[0], tainted, depth + 1,
                           through or not isarr)
    if k == "UnaryOperator" and st["op"] == "*":
        return lvalue_root(fn, ch[0], tainted, depth + 1, True)
    if k == "UnaryOperator" and st["op"] in ("++", "--", "&"):
        return lvalue_root(fn, ch[0], tainted, depth + 1, through)
    if k == "BinaryOperator" and st["op"] in ("+", "-"):
        # pointer arithmetic: the pointer side
        a = lvalue_root(fn, ch[0], tainted, depth + 1, through)
        if a[0] != "other":
            return a
        return lvalue_root(fn, ch[1], tainted, depth + 1, through)
    if k == "BinaryOperator" and st["op"] in ("=", ","):
        return lvalue_root(fn, ch[-1] if st["op"] == "," else ch[0], tainted,
                           depth + 1, through)
    if k == "ConditionalOperator":
        a = lvalue_root(fn, ch[1], tainted, depth + 1, through)
        b = lvalue_root(fn, ch[2], tainted, depth + 1, through)
        for r in (a, b):
            if r[0] == "doc":
                return r
        return a
    if k == "DeclRefExpr":
        r = st["ref"]
        if r["k"] == "global":
            return ("global", r.get("q", r["n"]))
        if r["d"] in tainted and (through or tainted[r["d"]][1]):
            return ("doc", "via %s (derived from %s)" % (r["n"], tainted[r["d"]][0]))
        if r["k"] == "parm":
            return ("param", r["n"])
        return ("local", r["n"])
    if k == "CXXThisExpr":
        if is_doc_record(st.get("tr")):
            return ("doc", "this(%s)" % st["tr"].split("::")[-1])
        return ("other", "this")
    if k in P.CALL_KINDS:
        # call returning pointer/reference to a doc record
        if is_doc_record(st.get("tr")) and st.get("tk") in ("ptr", "rec"):
            if st.get("tk") == "ptr" or st.get("lv"):
                return ("doc", "result of %s" % st.get("callee", {}).get("q", "?").split("::")[-1])
        return ("other", "call")
    return ("other", k)


def nonconst_pointee(t):
    """Type string of a pointer/reference: is the pointee writable?"""
    t = t.strip()
    if not (t.endswith("*") or t.endswith("&") or "*" in t or "&" in t):
        return False
    # "const char *" / "const X &" => const pointee
    head = t.split("*")[0].split("&")[0].strip()
    return not (head.startswith("const ") or head.endswith(" const"))


def mentions_doc(fn, i):
    """Does expression i contain a member of a doc record or a call
    returning a pointer to one?"""
    for j in fn.walk(i):
        st = fn.s(j)
        if st["k"] == "MemberExpr" and st.get("field") and is_doc_record(st.get("rec")):
            return "%s::%s" % (st["rec"].split("::")[-1], st["m"])
        if st["k"] in P.CALL_KINDS and st.get("tk") == "ptr" and is_doc_record(st.get("tr")):
            return "result of %s" % st.get("callee", {}).get("q", "?").split("::")[-1]
        if st["k"] == "CXXThisExpr" and is_doc_record(st.get("tr")):
            return "this"
    return None


def taint(fn):
    """Locals (pointer / reference, writable pointee) derived from doc memory.
    {decl id: origin}"""
    t = {}
    # parameters that are pointers/references to doc records
    for p in fn.params:
        if p["tk"] in ("ptr", "rec") and is_doc_record(p.get("tr")):
            ts = p["t"]
            if ("*" in ts or "&" in ts) and nonconst_pointee(ts):
                t[p["d"]] = ("parameter %s" % p["n"], "&" in ts)
    changed = True
    rounds = 0
    while changed and rounds < 5:
        changed = False
        rounds += 1
        for i in fn.walk():
            st = fn.s(i)
            if st["k"] == "DeclStmt":
                for d in st["decls"]:
                    if d["d"] in t or "init" not in d:
                        continue
                    ts = d["t"]
                    isptr = "*" in ts or "&" in ts or ts == "auto"
                    if not isptr:
                        continue
                    if not nonconst_pointee(ts) and ts != "auto":
                        continue
                    o = mentions_doc(fn, d["init"])
                    if o is None:
                        # derived from another tainted local
                        for j in fn.walk(d["init"]):
                            s2 = fn.s(j)
                            if s2["k"] == "DeclRefExpr" and s2["ref"]["d"] in t:
                                o = t[s2["ref"]["d"]][0]
                                break
                    if o is not None:
                        t[d["d"]] = (o, "&" in ts)
                        changed = True
            elif st["k"] == "BinaryOperator" and st["op"] == "=":
                l = fn.strip(st["c"][0])
                ls = fn.s(l)
                if ls["k"] == "DeclRefExpr" and ls["ref"]["k"] in ("local",) \
                        and ls["ref"]["d"] not in t and ls.get("tk") == "ptr" \
                        and nonconst_pointee(ls.get("t", "")):
                    o = mentions_doc(fn, st["c"][1])
                    if o is not None:
                        t[ls["ref"]["d"]] = (o, False)
                        changed = True
    return t


def direct_writes(fn):
    """List of (stmt id, description) — writes into document memory."""
    out = []
    tainted = taint(fn)
    is_doc_ctor = fn.d.get("ctor") and is_doc_record(fn.cls)
    if is_doc_ctor:
        out.append((fn.d.get("body", 0), "constructor of %s" % fn.cls.split("::")[-1]))
    for i in fn.walk():
        st = fn.s(i)
        k = st["k"]
        tgt = None
        if k in ("BinaryOperator", "CompoundAssignOperator") and \
                st["op"] in ("=", "+=", "-=", "*=", "/=", "%=", "|=", "&=", "^=", "<<=", ">>="):
            tgt = st["c"][0]
        elif k == "UnaryOperator" and st["op"] in ("++", "--"):
            tgt = st["c"][0]
        elif k == "CXXOperatorCallExpr" and st.get("callee", {}).get("q", "").endswith("operator=") \
                and st.get("args"):
            # assignment of class objects (e.g. *slot = {})
            tgt = st["args"][0]
        elif k in ("CallExpr",) and "callee" in st:
            nm = st["callee"]["q"].split("::")[-1]
            if nm in MEMWRITE_FUNCS and st.get("args"):
                a = st["args"][MEMWRITE_FUNCS[nm]]
                r = lvalue_root(fn, a, tainted)
                if r[0] == "doc":
                    out.append((i, "%s into %s" % (nm, r[1])))
                continue
        elif k == "CXXNewExpr" and st.get("placement", 0) > 0:
            if is_doc_record(st.get("tr")) or is_doc_record(st.get("alloct", "").replace("ArduinoJson::detail::", "")):
                out.append((i, "placement new of %s" % st.get("alloct")))
            continue
        if tgt is None:
            continue
        r = lvalue_root(fn, tgt, tainted)
        if r[0] == "doc":
            out.append((i, "write to %s" % r[1]))
        elif r[0] == "param":
            # write through a pointer/reference parameter to doc memory is
            # covered by taint(); a plain by-value parameter is local.
            pass
    return out


ALLOCATOR_METHODS = ("Allocator::allocate", "Allocator::deallocate",
                     "Allocator::reallocate")


def summarize(prog):
    """key -> list of direct writes; key -> allocator ext calls."""
    W = {}
    A = {}
    cg, ext = prog.callgraph()
    for key, fn in prog.fns.items():
        w = direct_writes(fn)
        if w:
            W[key] = w
        al = [e for e in ext.get(key, ()) if any(e.endswith(m) for m in ALLOCATOR_METHODS)]
        libc = [e for e in ext.get(key, ()) if e in ("malloc", "free", "realloc", "calloc", "operator new", "operator delete")]
        if al or libc:
            A[key] = al + libc
    return W, A


# ---------------------------------------------------------------------------
# read-only entry points
CONST_CLASSES = ("JsonVariantConst", "JsonArrayConst", "JsonObjectConst",
                 "JsonArrayConstIterator", "JsonObjectConstIterator",
                 "JsonPairConst", "JsonString", "JsonVariantVisitor",
                 "VariantConstPtr")
# VariantRefBase / JsonVariant / JsonArray / JsonObject / proxies have
# reference semantics: every method is const-qualified, so C++ const says
# nothing.  The read-only part of that API, by name:
READONLY_NAMES = {"as", "is", "isNull", "isUnbound", "size", "nesting",
                  "containsKey", "operator==", "operator!=", "operator<",
                  "operator<=", "operator>", "operator>=", "operator|",
                  "operator bool", "begin", "end", "key", "value",
                  "operator*", "operator->", "c_str", "isLinked"}
READONLY_FREE = ("serializeJson", "serializeJsonPretty", "serializeMsgPack",
                 "measureJson", "measureJsonPretty", "measureMsgPack",
                 "detail::compare", "detail::serialize", "detail::measure",
                 "detail::doSerialize", "operator<<")
REF_CLASSES = ("VariantRefBase", "JsonVariant", "JsonArray", "JsonObject",
               "ElementProxy", "MemberProxy", "JsonArrayIterator",
               "JsonObjectIterator", "JsonPair")


def readonly_entry_points(prog):
    eps = []
    for key, fn in prog.fns.items():
        cls = fn.cls.split("::")[-1] if fn.cls else ""
        if cls in CONST_CLASSES:
            if fn.d.get("ctor") or fn.d.get("dtor"):
                continue
            eps.append(fn)
        elif cls == "JsonDocument":
            if fn.d.get("const") and not fn.d.get("ctor"):
                eps.append(fn)
        elif cls in REF_CLASSES:
            if fn.name in READONLY_NAMES or fn.name.startswith("operator ") and fn.name not in ("operator ="):
                if fn.name in ("operator="):
                    continue
                eps.append(fn)
        elif not cls:
            if any(fn.q.endswith("::" + n) or fn.q == n for n in READONLY_FREE):
                # copyArray / convertFromJson etc. are not here: they write
                # to caller memory, which is allowed, but are checked too
                eps.append(fn)
            elif fn.name == "copyArray" and fn.params and \
                    (fn.params[0]["t"].startswith(("ArduinoJson::JsonArrayConst", "ArduinoJson::JsonVariantConst"))):
                eps.append(fn)
            elif fn.name.startswith("operator") and fn.name in READONLY_NAMES:
                eps.append(fn)
    return eps


def check_readonly(ctx, prog, rule, want_alloc=True, want_writes=True,
                   roots=None):
    """Obligations: each read-only entry point reaches no doc write / no
    allocator method."""
    W, A = summarize(prog)
    eps = roots if roots is not None else readonly_entry_points(prog)
    ctx.count(rule + ":entry_points", len(eps))
    ctx.count(rule + ":functions_with_doc_writes", len(W))
    # group identical names to keep instance ids stable across instantiations
    by_name = {}
    for fn in eps:
        by_name.setdefault(fn.short, []).append(fn)
    maxreach = 0
    for name, fl in sorted(by_name.items()):
        bad_w = None
        bad_a = None
        nreach = 0
        for fn in fl:
            reach = prog.reachable([fn.key])
            nreach = max(nreach, len(reach))
            if want_writes and bad_w is None:
                hit = [k for k in reach if k in W]
                if hit:
                    path = prog.find_path(fn.key, set(hit)) or [fn.key, hit[0]]
                    tgt = prog.fns[path[-1]]
                    sid, desc = W[path[-1]][0]
                    bad_w = (fn, path, tgt, sid, desc)
            if want_alloc and bad_a is None:
                hit = [k for k in reach if k in A]
                if hit:
                    path = prog.find_path(fn.key, set(hit)) or [fn.key, hit[0]]
                    bad_a = (fn, path, A[path[-1]])
        maxreach = max(maxreach, nreach)
        if want_writes:
            if bad_w:
                fn, path, tgt, sid, desc = bad_w
                ctx.ob(rule, "%s: no write to document memory" % name, False,
                       tgt.loc(sid),
                       "%s in %s; call path: %s" %
                       (desc, tgt.short, " -> ".join(prog.fns[k].short for k in path)))
            else:
                ctx.ob(rule, "%s: no write to document memory" % name, True,
                       fl[0].where, "%d instantiation(s), up to %d reachable functions, none writes" % (len(fl), nreach),
                       nontrivial=nreach > 1)
        if want_alloc:
            if bad_a:
                fn, path, what = bad_a
                ctx.ob(rule, "%s: no allocator call" % name, False,
                       prog.fns[path[-1]].where,
                       "%s called from %s; call path: %s" %
                       (",".join(what), prog.fns[path[-1]].short,
                        " -> ".join(prog.fns[k].short for k in path)))
            else:
                ctx.ob(rule, "%s: no allocator call" % name, True, fl[0].where,
                       "%d instantiation(s), up to %d reachable functions" % (len(fl), nreach),
                       nontrivial=nreach > 1)
    ctx.count(rule + ":max_reachable", maxreach)
    return W, A
