"""R-RAWIO — writers and readers move raw bytes only (C02: the destination
receives exactly the produced bytes, whatever its kind; C03/C16: the result
does not depend on the kind of input, one call consumes exactly its bytes).

Every call that a Writer<...> / Reader<...> adapter makes on the user's
stream or string object is looked up in a deny table of operations that do
not move an exact count of raw bytes:
  formatted insertion  operator<<  honours width(), fill(), locale
  istream::readsome               returns only what is buffered (short read)
  istream::operator>> / getline / ignore / peek / unget / putback
                                  skip or re-deliver bytes
  Stream::read() / peek()         ignore the timeout (documented in the source)
  Print::print / println          formatted
The rule is a deny table, not an allow list: an operation it does not know is
counted and listed in the evidence but raises no alarm.
"""
from lib import prog as P

DENY_W = {
    "operator<<": "formatted insertion honours the stream's width, fill and locale: a pending setw() pads the first byte written",
    "print": "Print::print formats its argument",
    "println": "Print::println appends a line ending",
    "printf": "formatted output",
}
DENY_R = {
    "readsome": "returns only the bytes already buffered: a piecewise-filled stream yields a short read and the parser reports "
                "IncompleteInput/EmptyInput for a complete document",
    "operator>>": "formatted extraction skips whitespace",
    "getline": "stops at a delimiter and discards it",
    "ignore": "discards bytes",
    "peek": "does not consume; Stream::peek ignores the timeout",
    "unget": "re-delivers a byte",
    "putback": "re-delivers a byte",
    "read@Stream": "Stream::read() ignores the timeout (the source says so): a slow stream yields -1 in the middle of a document",
}


def run(ctx, prog, rule="R-RAWIO", writers=True, readers=True):
    n = 0
    seen = {}
    for fn in sorted(prog.fns.values(), key=lambda f: f.key):
        isw = fn.file.startswith("Serialization/Writers/")
        isr = fn.file.startswith("Deserialization/Readers/")
        if not ((isw and writers) or (isr and readers)):
            continue
        for i, st in fn.calls():
            c = st["callee"]
            if c["key"] in prog.fns:
                continue        # library code, analysed on its own
            nm = c["q"].split("::")[-1]
            n += 1
            seen[c["q"]] = seen.get(c["q"], 0) + 1
            deny = DENY_W if isw else DENY_R
            why = deny.get(nm)
            if why is None and isr and nm == "read" and ("Stream" in c["q"] and "basic_istream" not in c["q"]):
                why = DENY_R["read@Stream"]
            if nm == "operator<<" and isw:
                # only on a stream object (not an integer shift, which is a BinaryOperator anyway)
                pass
            if why is not None:
                ctx.ob(rule, "%s calls no %s" % (fn.short, nm), False, fn.loc(i),
                       "%s: %s — %s" % (fn.text(i)[:80], c["q"], why))
    for q, k in sorted(seen.items()):
        ctx.count(rule + ":" + q, k)
    if n:
        ctx.ob(rule, "adapters use raw byte operations only (%s)" % ("writers" if writers and not readers else "readers" if readers and not writers else "writers and readers"),
               True, "Serialization/Writers, Deserialization/Readers", "%d external call sites, none in the deny table" % n, nontrivial=False)
    ctx.floor(rule, "external call sites in adapters", n, 4)
    ctx.doc(rule, __doc__.strip().split("\n\n")[1].replace("\n", " "))
