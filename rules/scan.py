"""R-SCAN — the character-scanning routines of the JSON reader conform to
their reference automata, for every input string (C10 dialect and
classification; C11/C16: a skipped string ends exactly where the string ends;
C01: what separates tokens).

skipQuotedString and skipSpacesAndComments look at the input only through
current()/move() and use characters only in equality tests (checked on the
syntax tree), so their behaviour is a function of the class string of the
input over the finite alphabet of the constants they compare with (plus one
class for every other character).  lib/scanfsm.py explores all reachable
configurations (CFG position x locals x class under the cursor) in lock step
with a reference automaton written from the dialect documentation:

  quoted string   q (chars | '\\' any)* q      Ok, consuming through the closing quote
                  ... NUL                      IncompleteInput
  separators      (SP|TAB|CR|LF)*              consumed
                  '/' '*' ... '*' '/'          consumed      (comments enabled)
                  '/' '/' ... LF               consumed      (comments enabled)
                  '/' other                    InvalidInput  (comments enabled)
                  NUL                          EmptyInput / IncompleteInput
                  inside a comment: NUL        IncompleteInput
                  anything else                Ok, left under the cursor

A mismatch names the class string that reaches it.
"""
from lib import scanfsm


def spec_quoted(q):
    def step(s, ch):
        if s == "open":
            if ch == q:
                return ("consume", "body")
            return ("stop", {"InvalidInput"})
        if s == "body":
            if ch == q:
                return ("consume-stop", {"Ok"})
            if ch == 0:
                return ("stop", {"IncompleteInput"})
            if ch == ord("\\"):
                return ("consume", "esc")
            return ("consume", "body")
        if s == "esc":
            if ch == 0:
                return ("stop", {"IncompleteInput"})
            return ("consume", "body")
        raise KeyError(s)
    return step


def spec_separators(comments):
    WS = (32, 9, 13, 10)

    def step(s, ch):
        if s == "sep":
            if ch == 0:
                return ("stop", {"IncompleteInput", "EmptyInput"})
            if ch in WS:
                return ("consume", "sep")
            if comments and ch == ord("/"):
                return ("consume", "slash")
            return ("stop", {"Ok"})
        if s == "slash":
            if ch == ord("*"):
                return ("consume", "blk")
            if ch == ord("/"):
                return ("consume", "line")
            return ("stop", {"InvalidInput"})
        if s == "blk":
            if ch == 0:
                return ("stop", {"IncompleteInput"})
            if ch == ord("*"):
                return ("consume", "blkstar")
            return ("consume", "blk")
        if s == "blkstar":
            if ch == 0:
                return ("stop", {"IncompleteInput"})
            if ch == ord("/"):
                return ("consume", "sep")
            if ch == ord("*"):
                return ("consume", "blkstar")
            return ("consume", "blk")
        if s == "line":
            if ch == 0:
                return ("stop", {"IncompleteInput"})
            if ch == 10:
                return ("consume", "sep")
            return ("consume", "line")
        raise KeyError(s)
    return step


def run(ctx, prog, rule="R-SCAN"):
    E = {}
    for e in prog.enum("DeserializationError::Code"):
        for c in e["consts"]:
            E[c["n"]] = int(c["v"])
    if "Ok" not in E:
        ctx.brk(rule, "enum DeserializationError::Code not found")
        return
    comments = None
    for g in prog.globals:
        pass
    n = 0
    # ---- skipQuotedString
    fns = sorted(prog.q("JsonDeserializer::skipQuotedString"), key=lambda f: f.key)
    for fn in fns[:1]:
        n += 1
        try:
            scanfsm.check_eligible(fn)
            sigma = scanfsm.char_consts(fn, extra=(0, ord('"'), ord("'"), ord("\\")))
        except scanfsm.Ineligible as ex:
            ctx.ob(rule, "skipQuotedString conforms to the quoted-string automaton", None, fn.where, "not eligible for the class abstraction: %s" % ex)
            continue
        other = next(c for c in range(ord("a"), 256) if c not in sigma)
        for q in (ord('"'), ord("'")):
            res = scanfsm.explore(prog, fn, sigma, other, "open", spec_quoted(q), [q], E)
            inst = "skipQuotedString(%s) conforms to the quoted-string automaton" % chr(q)
            report(ctx, rule, inst, fn, res)
    ctx.floor(rule, "skipQuotedString", len(fns), 1)
    # ---- skipSpacesAndComments
    fns = sorted(prog.q("JsonDeserializer::skipSpacesAndComments"), key=lambda f: f.key)
    for fn in fns[:1]:
        n += 1
        try:
            scanfsm.check_eligible(fn)
            sigma = scanfsm.char_consts(fn, extra=(0, 32, 9, 13, 10, ord("/"), ord("*")))
        except scanfsm.Ineligible as ex:
            ctx.ob(rule, "skipSpacesAndComments conforms to the separator automaton", None, fn.where, "not eligible for the class abstraction: %s" % ex)
            continue
        other = next(c for c in range(ord("a"), 256) if c not in sigma)
        # are comments compiled in?  (the option gate itself is R-OPTGATE's business)
        has_comments = any(fn.s(i)["k"] == "CaseStmt" and int(fn.s(i)["lo"]) == ord("/") for i in fn.walk())
        res = scanfsm.explore(prog, fn, sigma, other, "sep", spec_separators(has_comments), sorted(sigma) + [other], E)
        inst = "skipSpacesAndComments conforms to the separator automaton (comments %s)" % ("on" if has_comments else "off")
        report(ctx, rule, inst, fn, res)
    ctx.floor(rule, "skipSpacesAndComments", len(fns), 1)
    ctx.doc(rule, "scanning routines conform to reference automata over character classes (finite-state abstraction, all input strings)")


def report(ctx, rule, inst, fn, res):
    if res.unknown:
        ctx.ob(rule, inst, None, fn.where, "; ".join(sorted(set(res.unknown))[:3]))
    elif res.mismatch:
        msg, trace = sorted(res.mismatch, key=lambda m: len(m[1]))[0]
        ctx.ob(rule, inst, False, fn.where, "on the input classes [%s] the routine %s (%d mismatching configurations)" %
               (" ".join(trace), msg, len(res.mismatch)))
    else:
        ok = res.configs >= 10 and res.returns >= 1 and res.moves >= 1
        ctx.ob(rule, inst, True if ok else None, fn.where,
               "%d configurations explored, %d returns and %d cursor advances reached, all agree with the reference automaton" %
               (res.configs, res.returns, res.moves))
