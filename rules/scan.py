"""R-SCAN — the character-scanning routines of the JSON reader conform to
their reference automata, for every input string (C10 dialect and
classification; C11/C16: a skipped string ends exactly where the string ends;
C01: what separates tokens).

skipQuotedString and skipSpacesAndComments look at the input only through
current()/move() and use characters only in equality tests (checked on the
syntax tree), so their behaviour is a function of the class string of the
input over the finite alphabet of the constants they compare with (plus one
class for every other character).  lib/scanfsm.py explores all reachable
configurations (CFG position x locals x class under the cursor) in lock step
with a reference automaton written from the dialect documentation:

  skipped string  q (chars | '\\' any)* q      Ok, consuming through the closing quote
                  ... NUL                      IncompleteInput
  kept string     q (chars | '\\' esc)* q      Ok / NoMemory; esc is one of " \\ / b f n r t '
                                               or u followed by four hexadecimal digits
                                               (with Unicode decoding off: u is an ordinary character);
                                               any other escape: InvalidInput; NUL anywhere: IncompleteInput
                                               (parseQuotedString with parseHex4 inlined; decodeHex and the
                                               unescape table folded on class representatives)
  separators      (SP|TAB|CR|LF)*              consumed
                  '/' '*' ... '*' '/'          consumed      (comments enabled)
                  '/' '/' ... LF               consumed      (comments enabled)
                  '/' other                    InvalidInput  (comments enabled)
                  NUL                          EmptyInput / IncompleteInput
                  inside a comment: NUL        IncompleteInput
                  anything else                Ok, left under the cursor

  array           '[' WS ( ']' | V WS ( ',' V WS )* ']' )      V = nested value, K = key, WS = separator run:
  object          '{' WS ( '}' | K WS ':' V WS ( ',' WS K WS ':' V WS )* '}' )
                                               opaque tokens (each decided on its own: separators and strings above,
                                               nested values by induction); parseArray/skipArray/parseObject/skipObject
                                               for both filter kinds; NoMemory/TooDeep may end the scan anywhere

A mismatch names the class string that reaches it.
"""
from lib import scanfsm


def spec_quoted(q):
    def step(s, ch):
        if s == "open":
            if ch == q:
                return ("consume", "body")
            return ("stop", {"InvalidInput"})
        if s == "body":
            if ch == q:
                return ("consume-stop", {"Ok"})
            if ch == 0:
                return ("stop", {"IncompleteInput"})
            if ch == ord("\\"):
                return ("consume", "esc")
            return ("consume", "body")
        if s == "esc":
            if ch == 0:
                return ("stop", {"IncompleteInput"})
            return ("consume", "body")
        raise KeyError(s)
    return step


def spec_separators(comments):
    WS = (32, 9, 13, 10)

    def step(s, ch):
        if s == "sep":
            if ch == 0:
                return ("stop", {"IncompleteInput", "EmptyInput"})
            if ch in WS:
                return ("consume", "sep")
            if comments and ch == ord("/"):
                return ("consume", "slash")
            return ("stop", {"Ok"})
        if s == "slash":
            if ch == ord("*"):
                return ("consume", "blk")
            if ch == ord("/"):
                return ("consume", "line")
            return ("stop", {"InvalidInput"})
        if s == "blk":
            if ch == 0:
                return ("stop", {"IncompleteInput"})
            if ch == ord("*"):
                return ("consume", "blkstar")
            return ("consume", "blk")
        if s == "blkstar":
            if ch == 0:
                return ("stop", {"IncompleteInput"})
            if ch == ord("/"):
                return ("consume", "sep")
            if ch == ord("*"):
                return ("consume", "blkstar")
            return ("consume", "blk")
        if s == "line":
            if ch == 0:
                return ("stop", {"IncompleteInput"})
            if ch == 10:
                return ("consume", "sep")
            return ("consume", "line")
        raise KeyError(s)
    return step


ESC_LETTERS = [ord(c) for c in "\"\\/bfnrt'"]
HEX = [ord(c) for c in "0123456789abcdefABCDEF"]


def spec_parsed_string(q, unicode_on):
    """Reference automaton of a string that is kept (escapes validated)."""
    def step(s, ch):
        if s == "open":
            return ("consume", "body") if ch == q else ("stop", {"InvalidInput"})
        if s == "body":
            if ch == q:
                return ("consume-stop", {"Ok", "NoMemory"})
            if ch == 0:
                return ("stop", {"IncompleteInput"})
            if ch == ord("\\"):
                return ("consume", "esc")
            return ("consume", "body")
        if s == "esc":
            if ch == 0:
                return ("stop", {"IncompleteInput"})
            if ch == ord("u"):
                # with Unicode decoding off the escape is kept as it is: the
                # 'u' is an ordinary character of the body
                return ("consume", "h4") if unicode_on else ("consume", "body")
            if ch in ESC_LETTERS:
                return ("consume", "body")
            return ("stop", {"InvalidInput"})
        if s in ("h4", "h3", "h2", "h1"):
            if ch == 0:
                return ("stop", {"IncompleteInput"})
            if ch in HEX:
                return ("consume", {"h4": "h3", "h3": "h2", "h2": "h1", "h1": "body"}[s])
            return ("stop", {"InvalidInput"})
        raise KeyError(s)
    return step


def run_parsed(ctx, prog, rule="R-SCAN"):
    from rules import unicode
    unicode._memo(ctx, prog, "scan-parsed", ["JsonDeserializer::parseQuotedString", "JsonDeserializer::parseHex4", "JsonDeserializer::decodeHex",
                                            "JsonDeserializer::isBetween", "EscapeSequence::escapeTable", "EscapeSequence::unescapeChar"],
                  lambda c_, p_: _run_parsed(c_, p_, rule))


def _run_parsed(ctx, prog, rule="R-SCAN"):
    """parseQuotedString (the keep path), with parseHex4 inlined and
    decodeHex / unescapeChar folded on class representatives (their
    uniformity over each class is R-HEX's and R-ESC's business)."""
    E = {}
    for e in prog.enum("DeserializationError::Code"):
        for c in e["consts"]:
            E[c["n"]] = int(c["v"])
    fns = sorted(prog.q("JsonDeserializer::parseQuotedString"), key=lambda f: f.key)
    ctx.floor(rule, "parseQuotedString", len(fns), 1)
    # the unescape table, read from the literal of the current source (its
    # content is judged by R-ESC; here it only drives the automaton)
    table = None
    for tf in prog.q("EscapeSequence::escapeTable")[:1]:
        lit = offs = None
        for i in tf.walk():
            st = tf.s(i)
            if st["k"] == "StringLiteral":
                lit = st.get("bytes")
            if st["k"] == "ConditionalOperator":
                offs = (tf.const(st["c"][1]), tf.const(st["c"][2]))
        if lit is not None and offs is not None and None not in offs:
            table = {}
            j = offs[1]
            while j + 1 < len(lit) and lit[j] != 0:
                table.setdefault(lit[j], lit[j + 1])
                j += 2
    if table is None:
        ctx.ob(rule, "parseQuotedString: unescape table", None, "Json/EscapeSequence.hpp", "table literal not recognised")
        return

    def s8(v):
        return v - 256 if v > 127 else v
    hooks = {"unescapeChar": lambda c: s8(table.get(c % 256, 0))}
    for fn in fns[:1]:
        # \u decoding is compiled in iff parseHex4 is reachable from here (directly or through a helper)
        reach = prog.reachable([fn.key])
        unicode_on = any(k_ in reach for k_ in (f_.key for f_ in prog.q("JsonDeserializer::parseHex4")))
        # one representative per class; the boundary neighbours of the digit
        # ranges are classes of their own (uniformity inside the hex classes is R-HEX)
        extra = [ord(c) for c in ":@G`gx/"] + [0x80 - 256, 0xFF - 256]
        hexrep = [ord(c) for c in "09afAFe"]
        alphabet = sorted(set([0, ord('"'), ord("'"), ord("\\"), ord("u")] + ESC_LETTERS + hexrep + extra))
        for q in (ord('"'), ord("'")):
            res = scanfsm.explore2(prog, fn, alphabet, {}, "open", spec_parsed_string(q, unicode_on), [q], E, pure_hooks=hooks)
            inst = "parseQuotedString(%s) conforms to the string automaton (\\u %s)" % (chr(q), "decoded" if unicode_on else "kept")
            report(ctx, rule, inst, fn, res)


def generic_alphabet(prog, fn, extra=()):
    """Every character constant of the routine and of the helpers it calls
    (depth 3), with both neighbours: each class between two consecutive
    constants then has a representative, whatever the comparison operator."""
    out = set(extra) | {0, -128, 127}
    seen = set()

    def visit(f, depth):
        if f.key in seen or depth > 3:
            return
        seen.add(f.key)
        for i in f.walk():
            st = f.s(i)
            if st["k"] == "CharacterLiteral":
                out.add(int(st["v"]) if int(st["v"]) < 128 else int(st["v"]) - 256)
            if st["k"] == "CaseStmt":
                out.add(int(st["lo"]))
            if st["k"] == "StringLiteral":
                for b_ in st.get("bytes", []):
                    out.add(b_ if b_ < 128 else b_ - 256)
        for i, st in f.calls():
            g = prog.fns.get(st["callee"]["key"])
            if g is not None and g.cfg is not None:
                visit(g, depth + 1)
    visit(fn, 0)
    for c in list(out):
        for d in (-1, 1):
            if -128 <= c + d <= 127:
                out.add(c + d)
    return sorted(out)


def run(ctx, prog, rule="R-SCAN"):
    E = {}
    for e in prog.enum("DeserializationError::Code"):
        for c in e["consts"]:
            E[c["n"]] = int(c["v"])
    if "Ok" not in E:
        ctx.brk(rule, "enum DeserializationError::Code not found")
        return
    comments = None
    for g in prog.globals:
        pass
    n = 0
    # ---- skipQuotedString
    fns = sorted(prog.q("JsonDeserializer::skipQuotedString"), key=lambda f: f.key)
    for fn in fns[:1]:
        n += 1
        try:
            scanfsm.check_eligible(fn)
            sigma = scanfsm.char_consts(fn, extra=(0, ord('"'), ord("'"), ord("\\")))
        except scanfsm.Ineligible as ex:
            # characters go through a predicate (e.g. isQuote(c)): fold the predicates on class representatives
            alpha = generic_alphabet(prog, fn, extra=(ord('"'), ord("'"), ord("\\")))
            for q in (ord('"'), ord("'")):
                res = scanfsm.explore2(prog, fn, alpha, {}, "open", spec_quoted(q), [q], E)
                report(ctx, rule, "skipQuotedString(%s) conforms to the quoted-string automaton" % chr(q), fn, res)
            continue
        other = next(c for c in range(ord("a"), 256) if c not in sigma)
        for q in (ord('"'), ord("'")):
            res = scanfsm.explore(prog, fn, sigma, other, "open", spec_quoted(q), [q], E)
            inst = "skipQuotedString(%s) conforms to the quoted-string automaton" % chr(q)
            report(ctx, rule, inst, fn, res)
    ctx.floor(rule, "skipQuotedString", len(fns), 1)
    # ---- skipSpacesAndComments
    fns = sorted(prog.q("JsonDeserializer::skipSpacesAndComments"), key=lambda f: f.key)
    for fn in fns[:1]:
        n += 1
        try:
            scanfsm.check_eligible(fn)
            sigma = scanfsm.char_consts(fn, extra=(0, 32, 9, 13, 10, ord("/"), ord("*")))
        except scanfsm.Ineligible as ex:
            alpha = generic_alphabet(prog, fn, extra=(32, 9, 13, 10, ord("/"), ord("*")))
            has_comments = any(fn.s(i)["k"] == "CaseStmt" and int(fn.s(i)["lo"]) == ord("/") for i in fn.walk()) or \
                any(fn.s(i)["k"] == "CharacterLiteral" and int(fn.s(i)["v"]) == ord("*") for i in fn.walk())
            res = scanfsm.explore2(prog, fn, alpha, {}, "sep", spec_separators(has_comments), alpha, E)
            report(ctx, rule, "skipSpacesAndComments conforms to the separator automaton (comments %s)" % ("on" if has_comments else "off"), fn, res)
            continue
        other = next(c for c in range(ord("a"), 256) if c not in sigma)
        # are comments compiled in?  (the option gate itself is R-OPTGATE's business)
        has_comments = any(fn.s(i)["k"] == "CaseStmt" and int(fn.s(i)["lo"]) == ord("/") for i in fn.walk())
        res = scanfsm.explore(prog, fn, sigma, other, "sep", spec_separators(has_comments), sorted(sigma) + [other], E)
        inst = "skipSpacesAndComments conforms to the separator automaton (comments %s)" % ("on" if has_comments else "off")
        report(ctx, rule, inst, fn, res)
    ctx.floor(rule, "skipSpacesAndComments", len(fns), 1)
    run_parsed(ctx, prog, rule)
    run_containers(ctx, prog, rule)
    run_value(ctx, prog, rule)
    ctx.doc(rule, "scanning routines conform to reference automata over character classes (finite-state abstraction, all input strings)")


def report(ctx, rule, inst, fn, res):
    if res.unknown:
        ctx.ob(rule, inst, None, fn.where, "; ".join(sorted(set(res.unknown))[:3]))
    elif res.mismatch:
        msg, trace = sorted(res.mismatch, key=lambda m: len(m[1]))[0]
        ctx.ob(rule, inst, False, fn.where, "on the input classes [%s] the routine %s (%d mismatching configurations)" %
               (" ".join(trace), msg, len(res.mismatch)))
    else:
        ok = res.configs >= 10 and res.returns >= 1 and res.moves >= 1
        ctx.ob(rule, inst, True if ok else None, fn.where,
               "%d configurations explored, %d returns and %d cursor advances reached, all agree with the reference automaton" %
               (res.configs, res.returns, res.moves))


# ---------------------------------------------------------------------------
# container level: arrays and objects against the grammar, with nested
# values, keys and separator runs as opaque tokens (each decided elsewhere:
# R-SCAN above for separators and strings; nested values by induction)

WSCH = (32, 9, 13, 10)
ERR_IN = {"IncompleteInput", "InvalidInput", "EmptyInput"}


def spec_array():
    """'[' WS? ( ']' | V WS ( ',' V WS )* ']' )  — a skipped array may omit
    the first WS and the empty test: its V is then an empty value."""
    def step(s, t):
        if s == "open":
            return ("consume", "first") if t == ord("[") else ("stop", {"InvalidInput"})
        if s == "first":            # after '['
            if t == "WS":
                return ("consume", "first")
            if t == ord("]"):
                return ("consume-stop", {"Ok"})
            if t == "V":
                return ("consume", "after")
            return ("stop", {"InvalidInput"})
        if s == "after":            # after a value
            if t == "WS":
                return ("consume", "after")
            if t == ord("]"):
                return ("consume-stop", {"Ok"})
            if t == ord(","):
                return ("consume", "need")
            return ("stop", {"InvalidInput"})
        if s == "need":             # after ',': a value must follow
            if t == "V":
                return ("consume", "after")
            if t == "WS":
                return ("consume", "need")
            return ("stop", {"InvalidInput"})
        raise KeyError(s)
    return step


def spec_object():
    """'{' WS ( '}' | K WS ':' V WS ( ',' WS K WS ':' V WS )* '}' )"""
    def step(s, t):
        if s == "open":
            return ("consume", "first") if t == ord("{") else ("stop", {"InvalidInput"})
        if s == "first":
            if t == "WS":
                return ("consume", "first")
            if t == ord("}"):
                return ("consume-stop", {"Ok"})
            if t == "K":
                return ("consume", "colon")
            return ("stop", {"InvalidInput"})
        if s == "colon":
            if t == "WS":
                return ("consume", "colon")
            if t == ord(":"):
                return ("consume", "value")
            return ("stop", {"InvalidInput"})
        if s == "value":
            if t == "V":
                return ("consume", "after")
            if t == "WS":
                return ("consume", "value")
            return ("stop", {"InvalidInput"})
        if s == "after":
            if t == "WS":
                return ("consume", "after")
            if t == ord("}"):
                return ("consume-stop", {"Ok"})
            if t == ord(","):
                return ("consume", "key")
            return ("stop", {"InvalidInput"})
        if s == "key":
            if t == "WS":
                return ("consume", "key")
            if t == "K":
                return ("consume", "colon")
            return ("stop", {"InvalidInput"})
        raise KeyError(s)
    return step


def run_containers(ctx, prog, rule="R-SCAN"):
    from rules import unicode
    unicode._memo(ctx, prog, "scan-containers",
                  ["JsonDeserializer::parseArray", "JsonDeserializer::skipArray", "JsonDeserializer::parseObject", "JsonDeserializer::skipObject",
                   "JsonDeserializer::eat"], lambda c_, p_: _run_containers(c_, p_, rule))


def _run_containers(ctx, prog, rule):
    E = {}
    for e in prog.enum("DeserializationError::Code"):
        for c in e["consts"]:
            E[c["n"]] = int(c["v"])
    alphabet = sorted({0, 32, ord("["), ord("]"), ord("{"), ord("}"), ord(","), ord(":"), ord('"'), ord("1"), ord("x"), ord("/")})

    def after_ws(alpha, head):
        return [h for h in alpha if h not in WSCH and h != 0]

    def anyhead(alpha, head):
        return list(alpha)
    opaque = {
        "skipSpacesAndComments": ("WS", ERR_IN, after_ws),
        "parseVariant": ("V", ERR_IN | {"NoMemory", "TooDeep"}, anyhead),
        "skipVariant": ("V", ERR_IN | {"NoMemory", "TooDeep"}, anyhead),
        "parseKey": ("K", ERR_IN | {"NoMemory"}, anyhead),
        "skipKey": ("K", ERR_IN | {"NoMemory"}, anyhead),
    }
    n = 0
    for nm, spec, opener in (("parseArray", spec_array, "["), ("skipArray", spec_array, "["),
                             ("parseObject", spec_object, "{"), ("skipObject", spec_object, "{")):
        fns = sorted(prog.q("JsonDeserializer::" + nm), key=lambda f: f.key)
        chosen = {}
        for f in fns:
            fk = "Filter" if ("DeserializationOption::Filter" in f.key and "AllowAllFilter" not in f.key) else "AllowAll"
            chosen.setdefault(fk if nm.startswith("parse") else "", f)
        for fk, fn in sorted(chosen.items()):
            n += 1
            res = scanfsm.explore2(prog, fn, alphabet, {}, "open", spec(), [ord(opener)], E, opaque=opaque, anywhere=("NoMemory", "TooDeep"))
            inst = "%s%s conforms to the %s grammar" % (nm, "[%s]" % fk if fk else "", "array" if "Array" in nm else "object")
            report(ctx, rule, inst, fn, res)
    ctx.floor(rule, "container routines", n, 4)


def spec_value():
    """WS then exactly one of: array on '[', object on '{', string on a quote,
    true / false / null on t / f / n, number otherwise; the routine's result
    is that of the selected routine."""
    def step(s, t):
        if s == "value":
            if t == "WS":
                return ("consume", "value1")
            return ("stop", {"InvalidInput"})
        if s == "value1":
            if isinstance(t, str) and t.startswith("SEL:"):
                kind, head = t[4:].split("@")
                head = int(head)
                want = {ord("["): "array", ord("{"): "object", ord('"'): "string", ord("'"): "string",
                        ord("t"): "kw:true", ord("f"): "kw:false", ord("n"): "kw:null"}.get(head, "number")
                if kind == want:
                    return ("consume-stop", {"Ok"})
                return ("stop", {"a %s routine is selected for a value that starts like a %s" % (kind, want)})
            return ("stop", {"InvalidInput"})
        raise KeyError(s)
    return step


def run_value(ctx, prog, rule="R-SCAN"):
    from rules import unicode
    unicode._memo(ctx, prog, "scan-value", ["JsonDeserializer::parseVariant", "JsonDeserializer::skipVariant"],
                  lambda c_, p_: _run_value(c_, p_, rule))


def _run_value(ctx, prog, rule):
    E = {}
    for e in prog.enum("DeserializationError::Code"):
        for c in e["consts"]:
            E[c["n"]] = int(c["v"])
    alphabet = sorted({0, 32, ord("["), ord("]"), ord("{"), ord("}"), ord(","), ord('"'), ord("'"), ord("t"), ord("f"), ord("n"),
                       ord("1"), ord("-"), ord("x"), ord("N"), ord("I")})
    ANY = ERR_IN | {"NoMemory", "TooDeep"}

    def after_ws(alpha, head):
        return [h for h in alpha if h not in WSCH and h != 0]

    def anyhead(alpha, head):
        return list(alpha)

    def sel(kind):
        def tokfn(f, st, head):
            k = kind
            if kind == "kw":
                lit = None
                for a in st.get("args", []):
                    sa = f.s(f.strip(a, casts=True))
                    if sa["k"] == "StringLiteral":
                        lit = bytes(sa.get("bytes", [])).rstrip(b"\0").decode("latin1")
                k = "kw:%s" % lit
            return "SEL:%s@%d" % (k, head)
        return tokfn
    opaque = {"skipSpacesAndComments": ("WS", ERR_IN, after_ws)}
    for nm, kind in (("parseArray", "array"), ("skipArray", "array"), ("parseObject", "object"), ("skipObject", "object"),
                     ("parseStringValue", "string"), ("skipQuotedString", "string"), ("skipKeyword", "kw"),
                     ("parseNumericValue", "number"), ("skipNumericValue", "number")):
        opaque[nm] = (sel(kind), ANY, anyhead)
    n = 0
    for nm in ("parseVariant", "skipVariant"):
        fns = sorted(prog.q("JsonDeserializer::" + nm), key=lambda f: f.key)
        chosen = {}
        for f in fns:
            fk = "Filter" if ("DeserializationOption::Filter" in f.key and "AllowAllFilter" not in f.key) else "AllowAll"
            chosen.setdefault(fk if nm.startswith("parse") else "", f)
        for fk, fn in sorted(chosen.items()):
            n += 1
            res = scanfsm.explore2(prog, fn, alphabet, {}, "value", spec_value(), alphabet, E, opaque=opaque, anywhere=("NoMemory", "TooDeep"))
            report(ctx, rule, "%s%s selects the routine of the value's first character" % (nm, "[%s]" % fk if fk else ""), fn, res)
    ctx.floor(rule, "value dispatch routines", n, 2)
