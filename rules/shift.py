"""R-SHIFT — every shift in the MessagePack code has a count inside the width
of its (promoted) left operand (C08/C09: sizes, lengths and integers are
assembled and taken apart by shifts; a count equal to the width is undefined
and on the usual targets leaves the operand unchanged or yields all ones, so
the decoded value silently differs from the encoded one).

The count is bounded by a small interval evaluation over the syntax tree:
constants as folded by clang; a local whose every assignment is bounded; a
variable under dominating comparisons with constants (with no write to it in
between); a loop index under its dominating `i < N`; a parameter through the
arguments of all its call sites; + - * % << over intervals.  A count that
cannot be bounded is reported as unknown (analysis broken), never as a pass.
"""
from lib import prog as P

FILES = ("MsgPack/",)
INF = 1 << 70


def type_range(tk):
    if tk == "bool":
        return (0, 1)
    if tk and tk[0] in "su" and tk[1:].isdigit():
        w = int(tk[1:])
        return (0, (1 << w) - 1) if tk[0] == "u" else (-(1 << (w - 1)), (1 << (w - 1)) - 1)
    return None


class Bounds(object):
    def __init__(self, prog):
        self.prog = prog
        self.callers = None
        self.stack = set()

    # ---- helpers --------------------------------------------------------
    def writes_to(self, fn, d):
        """[(stmt id, rhs id or None)] for every write to local/param d
        (assignments, ++/--, address taken, passed by non-const reference)."""
        out = []
        for i in fn.walk():
            st = fn.s(i)
            k = st["k"]
            if k in ("BinaryOperator", "CompoundAssignOperator") and st["op"].endswith("=") and st["op"] not in ("==", "!=", "<=", ">="):
                t = fn.s(fn.strip(st["c"][0], casts=True))
                if t["k"] == "DeclRefExpr" and t["ref"]["d"] == d:
                    out.append((i, st["c"][1] if st["op"] == "=" else None))
            elif k == "UnaryOperator" and st["op"] in ("++", "--", "&"):
                t = fn.s(fn.strip(st["c"][0], casts=True))
                if t["k"] == "DeclRefExpr" and t["ref"]["d"] == d:
                    out.append((i, None))
            elif k in P.CALL_KINDS and "callee" in st:
                callee = self.prog.fns.get(st["callee"]["key"])
                for n, a in enumerate(st.get("args", [])):
                    sa = fn.s(fn.strip(a, casts=False))
                    if sa["k"] == "DeclRefExpr" and sa["ref"]["d"] == d:
                        # by value unless the callee takes a non-const reference
                        byref = True
                        if callee is not None and n < len(callee.params):
                            pt = callee.params[n]["t"]
                            byref = pt.rstrip().endswith("&") and not pt.lstrip().startswith("const ")
                        elif callee is None:
                            byref = False if st["callee"].get("q", "").startswith(("std::", "mem", "str")) else True
                        if byref:
                            out.append((i, None))
        return out

    def decl_init(self, fn, d):
        for i in fn.walk():
            st = fn.s(i)
            if st["k"] == "DeclStmt":
                for dd in st["decls"]:
                    if dd["d"] == d:
                        return (i, dd.get("init"), dd)
        return None

    def guard_range(self, fn, at, d, rng):
        """Tighten rng with comparisons against constants that dominate `at`
        and are not followed by a write to d before `at`."""
        lo, hi = rng
        ws = [w for w, _ in self.writes_to(fn, d)]
        for cond, pol in fn.guards_of(at):
            c = fn.s(fn.strip(cond, casts=True))
            if c["k"] != "BinaryOperator" or c["op"] not in ("<", "<=", ">", ">=", "=="):
                continue
            a, b = c["c"]
            sa, sb = fn.s(fn.strip(a, casts=True)), fn.s(fn.strip(b, casts=True))
            op = c["op"]
            if sb["k"] == "DeclRefExpr" and sb["ref"]["d"] == d:
                sa, sb, a, b = sb, sa, b, a
                op = {"<": ">", "<=": ">=", ">": "<", ">=": "<=", "==": "=="}[op]
            if not (sa["k"] == "DeclRefExpr" and sa["ref"]["d"] == d):
                continue
            kr = self.ev(fn, b, at)
            if kr is None:
                continue
            # a write to d between the test and the use invalidates the test
            stale = False
            for w in ws:
                if fn.stmt_dominates(cond, w) and not fn.stmt_dominates(at, w) and w != at:
                    pw, pa = fn.block_of(w), fn.block_of(at)
                    if pw and pa and (pw[0] in fn.reach_from([fn.block_of(cond)[0]]) and pa[0] in fn.reach_from([pw[0]])):
                        # inside a loop the write may come back to the test first:
                        # only writes that can reach `at` without re-evaluating cond matter
                        cb = fn.block_of(cond)[0]
                        if pa[0] in fn.reach_from([pw[0]], avoid=(cb,)) or pw[0] == pa[0]:
                            if not (pw[0] == pa[0] and pw[1] > pa[1]):
                                stale = True
            if stale:
                continue
            if not pol:
                op = {"<": ">=", "<=": ">", ">": "<=", ">=": "<", "==": None}[op]
                if op is None:
                    continue
            if op == "<":
                hi = min(hi, kr[1] - 1)
            elif op == "<=":
                hi = min(hi, kr[1])
            elif op == ">":
                lo = max(lo, kr[0] + 1)
            elif op == ">=":
                lo = max(lo, kr[0])
            elif op == "==":
                lo, hi = max(lo, kr[0]), min(hi, kr[1])
        return (lo, hi)

    def param_range(self, fn, idx):
        if self.callers is None:
            self.callers = {}
            for f in self.prog.fns.values():
                for i, st in f.calls():
                    self.callers.setdefault(st["callee"]["key"], []).append((f, i))
        sites = self.callers.get(fn.key, [])
        if not sites:
            return None
        lo, hi = INF, -INF
        for f, i in sites:
            args = f.s(i).get("args", [])
            if idx >= len(args):
                return None
            r = self.ev(f, args[idx], i)
            if r is None:
                return None
            lo, hi = min(lo, r[0]), max(hi, r[1])
        return (lo, hi)

    # ---- interval evaluation -------------------------------------------
    def ev(self, fn, i, at):
        key = (fn.key, i)
        if key in self.stack or len(self.stack) > 40:
            return None
        self.stack.add(key)
        try:
            r = self._ev(fn, i, at)
        finally:
            self.stack.discard(key)
        return r

    def clip(self, r, tk):
        tr = type_range(tk)
        if r is None:
            return tr
        if tr is None:
            return r
        if tr[0] <= r[0] and r[1] <= tr[1]:
            return r
        return tr       # may wrap: anything of the type

    def _ev(self, fn, i, at):
        st = fn.s(i)
        k = st["k"]
        c = fn.const(i)
        if c is not None:
            return (c, c)
        if "cv" in st and k != "DeclRefExpr":
            return (int(st["cv"]), int(st["cv"]))
        ch = [x for x in st["c"] if x is not None and x >= 0]
        if k in P.TRANSPARENT or k in P.EXPLICIT_CASTS:
            r = self.ev(fn, ch[0], at) if ch else None
            if st.get("tk", "").startswith(("u", "s", "bool")):
                return self.clip(r, st.get("tk"))
            return r
        if k == "DeclRefExpr":
            ref = st["ref"]
            tr = type_range(st.get("tk"))
            if ref["k"] not in ("local", "parm"):
                return tr
            d = ref["d"]
            rng = None
            if ref["k"] == "parm":
                idx = [n for n, p in enumerate(fn.params) if p["d"] == d]
                if idx and not self.writes_to(fn, d):
                    rng = self.param_range(fn, idx[0])
            else:
                di = self.decl_init(fn, d)
                ws = self.writes_to(fn, d)
                parts = []
                ok = di is not None
                if ok and di[1] is not None:
                    parts.append(self.ev(fn, di[1], di[0]))
                elif ok and not ws:
                    ok = False
                for w, rhs in ws:
                    if rhs is None:
                        # ++ / += / by reference: only the type bounds it
                        ok = False
                        break
                    parts.append(self.ev(fn, rhs, w))
                if ok and parts and all(p is not None for p in parts):
                    rng = (min(p[0] for p in parts), max(p[1] for p in parts))
            if rng is None:
                rng = tr
            if rng is None:
                return None
            if tr is not None:
                rng = (max(rng[0], tr[0]), min(rng[1], tr[1]))
            return self.guard_range(fn, at, d, rng)
        if k == "BinaryOperator" and len(ch) == 2:
            op = st["op"]
            a, b = self.ev(fn, ch[0], at), self.ev(fn, ch[1], at)
            if op == "%" and b is not None and b[0] == b[1] and b[0] > 0:
                if a is not None and a[0] >= 0:
                    return (0, min(a[1], b[0] - 1))
                return (-(b[0] - 1), b[0] - 1)
            if op == "&" and b is not None and b[0] == b[1] and b[0] >= 0:
                return (0, b[0])
            if a is None or b is None:
                return None
            if op == "+":
                r = (a[0] + b[0], a[1] + b[1])
            elif op == "-":
                r = (a[0] - b[1], a[1] - b[0])
                # i < N dominating:  N - i >= 1
                r = self.minus_under_guard(fn, ch[0], ch[1], at, r)
            elif op == "*":
                ps = [x * y for x in a for y in b]
                r = (min(ps), max(ps))
            elif op == "<<" and a[0] >= 0 and 0 <= b[0] and b[1] < 64:
                r = (a[0] << b[0], a[1] << b[1])
            elif op == ">>" and a[0] >= 0 and 0 <= b[0] and b[1] < 64:
                r = (a[0] >> b[1], a[1] >> b[0])
            else:
                return self.clip(None, st.get("tk"))
            return self.clip(r, st.get("tk"))
        if k == "ConditionalOperator" and len(ch) == 3:
            a, b = self.ev(fn, ch[1], at), self.ev(fn, ch[2], at)
            if a is None or b is None:
                return None
            return (min(a[0], b[0]), max(a[1], b[1]))
        return type_range(st.get("tk"))

    def minus_under_guard(self, fn, x, y, at, r):
        """x - y (or (x - y) - k handled by the caller's arithmetic) with a
        dominating y < x gives x - y >= 1."""
        # flatten  (N - i) - 1  is evaluated as (N - i) then - 1: handle N - i here
        tx, ty = fn.text(fn.strip(x, casts=True)), fn.text(fn.strip(y, casts=True))
        for cond, pol in fn.guards_of(at):
            c = fn.s(fn.strip(cond, casts=True))
            if c["k"] != "BinaryOperator" or not pol:
                continue
            a, b = [fn.text(fn.strip(z, casts=True)) for z in c["c"]]
            if (c["op"] == "<" and a == ty and b == tx) or (c["op"] == ">" and a == tx and b == ty):
                return (max(r[0], 1), r[1])
            if (c["op"] == "<=" and a == ty and b == tx) or (c["op"] == ">=" and a == tx and b == ty):
                return (max(r[0], 0), r[1])
        return r


def run(ctx, prog, rule="R-SHIFT", files=FILES):
    B = Bounds(prog)
    n = 0
    seen = set()
    for fn in sorted(prog.fns.values(), key=lambda f: f.key):
        if not fn.file.startswith(files) or fn.cfg is None:
            continue
        for i in fn.walk():
            st = fn.s(i)
            if st["k"] not in ("BinaryOperator", "CompoundAssignOperator") or st["op"] not in ("<<", ">>", "<<=", ">>="):
                continue
            ltk = st.get("tk", "")
            if st["op"].endswith("=") and len(st["op"]) == 3:
                ltk = fn.s(st["c"][0]).get("tk", ltk)
                if ltk in ("u8", "s8", "u16", "s16", "bool"):
                    ltk = "s32"
            tr = type_range(ltk)
            if tr is None:
                continue    # stream insertion and the like
            width = len(bin(tr[1] - tr[0])) - 2
            inst = "%s: %s at line %s" % (fn.short, fn.text(i)[:60], fn.loc(i).rsplit(":", 1)[-1])
            if (fn.short, fn.loc(i), fn.text(i)) in seen:
                continue    # same site in another instantiation
            seen.add((fn.short, fn.loc(i), fn.text(i)))
            n += 1
            r = B.ev(fn, st["c"][1], i)
            if r is None:
                ctx.ob(rule, inst, None, fn.loc(i), "the shift count cannot be bounded by the interval rules")
            elif 0 <= r[0] and r[1] < width:
                ctx.ob(rule, inst, True, fn.loc(i), "count in [%d, %d] < %d" % (r[0], r[1], width), nontrivial=(r[0] != r[1]))
            else:
                ctx.ob(rule, inst, False, fn.loc(i),
                       "the shift count ranges over [%d, %d] but the left operand has %d bits: a count of %s is undefined "
                       "(typically the operand comes back unchanged or as all ones), so the value assembled here is wrong for that width: %s" %
                       (r[0], r[1], width, "%d or more" % width if r[1] >= width else "less than zero", fn.text(i)))
    ctx.floor(rule, "shift expressions", n, 12)
    ctx.doc(rule, __doc__.strip().split("\n\n")[1].replace("\n", " "))


def run_signext(ctx, prog, rule="R-SIGNEXT", files=FILES):
    """No sign-extended value inside a byte assembly: a conversion from a
    signed type to a wider unsigned type whose result is an operand of | ^ +
    or << (an unmasked composition of header bytes) must have a source that
    cannot be negative (constant, or under a dominating >= 0 test).  A
    negative int8_t extension type, for instance, would otherwise overwrite
    every size byte above it with 0xFF."""
    B = Bounds(prog)
    n = 0
    seen = set()
    for fn in sorted(prog.fns.values(), key=lambda f: f.key):
        if not fn.file.startswith(files) or fn.cfg is None:
            continue
        par = fn.parents()
        for i in fn.walk():
            st = fn.s(i)
            if st.get("ck") != "IntegralCast":
                continue
            fk, tk = st.get("fromk", ""), st.get("tk", "")
            if not (fk[:1] == "s" and tk[:1] == "u" and fk[1:].isdigit() and tk[1:].isdigit() and int(tk[1:]) > int(fk[1:])):
                continue
            # climb through parens / further casts to the consuming operator
            j = par.get(i)
            while j is not None and (fn.s(j)["k"] in P.TRANSPARENT or fn.s(j)["k"] in P.EXPLICIT_CASTS):
                j = par.get(j)
            if j is None:
                continue
            pj = fn.s(j)
            if not (pj["k"] in ("BinaryOperator", "CompoundAssignOperator") and pj["op"] in ("|", "^", "+", "<<", "|=", "^=", "+=")):
                continue
            if (fn.short, fn.loc(i), fn.text(i)) in seen:
                continue
            seen.add((fn.short, fn.loc(i), fn.text(i)))
            n += 1
            r = B.ev(fn, st["c"][0], i)
            ok = r is not None and r[0] >= 0
            ctx.ob(rule, "%s: %s cannot be negative" % (fn.short, fn.text(st["c"][0])[:50]), ok, fn.loc(i),
                   "source in [%d, %d]" % r if ok else
                   "%s (%s) is widened to %s with sign extension and combined by `%s`: a negative value sets every higher byte of the "
                   "assembled header to 0xFF: %s" % (fn.text(st["c"][0])[:50], fk, tk, pj["op"], fn.text(j)[:90]))
    ctx.count(rule + ":sites", n)
    ctx.doc(rule, run_signext.__doc__.strip().replace("\n", " "))
