"""R-TAG — union-tag discipline of VariantData (C14.1, C13, C06.4).

VariantContent / VariantExtension are unions discriminated by
VariantData::type_.  For every access to a union member the set of tags that
can reach the access is computed from (a) the case labels of an enclosing
`switch (type_)` that reach the statement in the CFG (fall-through aware),
(b) dominating branch conditions over type_ (==, !=, `type_ & bit`, the
is*() predicates — folded for every enumerator of VariantType), (c) for
writes, the tag the function assigns to type_.  The member must be permitted
for every such tag.
"""
from lib import prog as P

PERMITTED = {
    "Null": set(),
    "RawString": {"asOwnedString"},
    "OwnedString": {"asOwnedString"},
    "LinkedString": {"asLinkedString"},
    "Boolean": {"asBoolean"},
    "Uint32": {"asUint32"},
    "Int32": {"asInt32"},
    "Float": {"asFloat"},
    "Uint64": {"asSlotId", "asUint64"},
    "Int64": {"asSlotId", "asInt64"},
    "Double": {"asSlotId", "asDouble"},
    "Object": {"asObject", "asCollection"},
    "Array": {"asArray", "asCollection"},
}
# (function, tag, member) -> reason
EXCEPTIONS = {
    ("VariantData::asBoolean", "Int32", "asUint32"):
        "same-size integer reinterpretation, compared with zero only",
    ("VariantData::asBoolean", "Int64", "asUint64"):
        "same-size integer reinterpretation, compared with zero only",
}


def tag_table(prog):
    e = prog.enum("detail::VariantType")
    if not e:
        return None
    return {c["n"]: int(c["v"]) for c in e[0]["consts"]}


def bits_table(prog):
    e = prog.enum("detail::VariantTypeBits")
    if not e:
        return {}
    return {c["n"]: int(c["v"]) for c in e[0]["consts"]}


def is_type_field(fn, i):
    st = fn.s(fn.strip(i, casts=True))
    return st["k"] == "MemberExpr" and st.get("m") == "type_" and \
        (st.get("rec") or "").endswith("VariantData")


def value_of(fn, i, tagval, prog, depth=0):
    """Integer value of expression i when type_ == tagval (None = unknown)."""
    i = fn.strip(i, casts=True)
    st = fn.s(i)
    if is_type_field(fn, i):
        return tagval
    if "cv" in st:
        return int(st["cv"])
    if st["k"] == "DeclRefExpr" and st["ref"]["k"] == "enumerator":
        return None
    return None


def truth(fn, i, tagval, prog, depth=0):
    """Truth of boolean expression i when this->type_ == tagval; None if the
    expression does not depend on type_ only."""
    if depth > 8:
        return None
    i = fn.strip(i, casts=True)
    st = fn.s(i)
    k = st["k"]
    ch = [c for c in st["c"] if c is not None and c >= 0]
    if k == "UnaryOperator" and st["op"] == "!":
        t = truth(fn, ch[0], tagval, prog, depth + 1)
        return None if t is None else (not t)
    if k == "BinaryOperator":
        op = st["op"]
        if op in ("==", "!=", "<", ">", "<=", ">="):
            a = value_of(fn, ch[0], tagval, prog)
            b = value_of(fn, ch[1], tagval, prog)
            if a is None or b is None:
                return None
            return {"==": a == b, "!=": a != b, "<": a < b, ">": a > b,
                    "<=": a <= b, ">=": a >= b}[op]
        if op in ("||", "&&"):
            a = truth(fn, ch[0], tagval, prog, depth + 1)
            b = truth(fn, ch[1], tagval, prog, depth + 1)
            if op == "||":
                if a is True or b is True:
                    return True
                if a is False and b is False:
                    return False
                return None
            if a is False or b is False:
                return False
            if a is True and b is True:
                return True
            return None
        return None
    if k == "CXXOperatorCallExpr" and st.get("callee", {}).get("q", "").endswith("operator&"):
        args = st.get("args", [])
        if len(args) == 2:
            a = value_of(fn, args[0], tagval, prog)
            b = value_of(fn, args[1], tagval, prog)
            if a is not None and b is not None:
                return (a & b) != 0
        return None
    if k == "CXXMemberCallExpr" and "callee" in st and not st.get("args"):
        # is*() predicate on this
        o = fn.s(fn.strip(st["obj"], casts=True))
        if o["k"] != "CXXThisExpr":
            return None
        callee = prog.fns.get(st["callee"]["key"])
        if callee is None or not callee.cls.endswith("VariantData"):
            return None
        # single `return expr;`
        rets = [j for j in callee.walk() if callee.s(j)["k"] == "ReturnStmt"]
        if len(rets) != 1:
            return None
        rc = [c for c in callee.s(rets[0])["c"] if c is not None and c >= 0]
        if not rc:
            return None
        return truth(callee, rc[0], tagval, prog, depth + 1)
    if "cv" in st and st.get("tk") == "bool":
        return st["cv"] != "0"
    return None


def switch_constraints(fn, tags):
    """[(set(body blocks), {block: set(tagnames)})] for each switch(type_)."""
    out = []
    blocks = fn.blocks()
    for b in fn.cfg["blocks"]:
        if b.get("termk") != "SwitchStmt" or "cond" not in b:
            continue
        if not is_type_field(fn, b["cond"]):
            continue
        head = b["id"]
        byval = {v: n for n, v in tags.items()}
        case_tags = {}
        default_block = None
        listed = set()
        for s in b["succ"]:
            if s < 0:
                continue
            lb = blocks[s].get("label")
            if lb is None:
                # implicit default (falls out of the switch)
                continue
            ls = fn.s(lb)
            if ls["k"] == "CaseStmt":
                # nested case labels: case A: case B: -> clang makes separate
                # blocks that fall through; fine
                v = int(ls["lo"])
                name = byval.get(v)
                if name is not None:
                    case_tags[s] = {name}
                    listed.add(name)
            elif ls["k"] == "DefaultStmt":
                default_block = s
        if default_block is not None:
            case_tags[default_block] = set(tags) - listed
        # reachability inside the body
        reach_tags = {}
        for cb, ts in case_tags.items():
            for x in fn.reach_from([cb], avoid=(head,)):
                reach_tags.setdefault(x, set()).update(ts)
        out.append((head, reach_tags))
    return out


def assigned_tags(fn, tags):
    """Tags assigned to this->type_ in fn: [(stmt id, tagname)].  A call on
    this to a helper whose body stores one of its parameters into type_
    counts as an assignment of the constant passed for that parameter."""
    byval = {v: n for n, v in tags.items()}
    out = []
    for i in fn.walk():
        st = fn.s(i)
        if st["k"] == "BinaryOperator" and st["op"] == "=" and is_type_field(fn, st["c"][0]):
            r = fn.s(fn.strip(st["c"][1], casts=True))
            if "cv" in r and int(r["cv"]) in byval:
                out.append((i, byval[int(r["cv"])]))
            elif r["k"] == "DeclRefExpr" and r["ref"]["k"] == "parm" and fn.prog is not None:
                # a helper forwarding its parameter: the tags its callers pass
                idx = [n for n, p_ in enumerate(fn.params) if p_["d"] == r["ref"]["d"]]
                ts = set()
                ok = bool(idx)
                ncall = 0
                for g in fn.prog.fns.values():
                    for ci, cst in g.calls():
                        if cst["callee"]["key"] != fn.key:
                            continue
                        ncall += 1
                        if idx[0] >= len(cst.get("args", [])):
                            ok = False
                            continue
                        a = g.s(g.strip(cst["args"][idx[0]], casts=True))
                        v = g.const(cst["args"][idx[0]])
                        if v is None and "cv" in a:
                            v = int(a["cv"])
                        if v in byval:
                            ts.add(byval[v])
                        else:
                            ok = False
                out.append((i, frozenset(ts) if ok and ncall else None))
            else:
                out.append((i, None))
        elif st["k"] == "CXXMemberCallExpr" and "callee" in st and fn.prog is not None:
            o = fn.s(fn.strip(st["obj"], casts=True)) if "obj" in st else {}
            callee = fn.prog.fns.get(st["callee"]["key"])
            if o.get("k") != "CXXThisExpr" or callee is None or not callee.cls.endswith("VariantData"):
                continue
            for j in callee.walk():
                sj = callee.s(j)
                if sj["k"] == "BinaryOperator" and sj["op"] == "=" and is_type_field(callee, sj["c"][0]):
                    r = callee.s(callee.strip(sj["c"][1], casts=True))
                    if r["k"] == "DeclRefExpr" and r["ref"]["k"] == "parm":
                        idx = [n for n, p_ in enumerate(callee.params) if p_["d"] == r["ref"]["d"]]
                        if idx and idx[0] < len(st.get("args", [])):
                            a = fn.s(fn.strip(st["args"][idx[0]], casts=True))
                            v = fn.const(st["args"][idx[0]])
                            if v is None and "cv" in a:
                                v = int(a["cv"])
                            out.append((i, byval.get(v)))
    return out


def is_write(fn, i):
    """Is member access i the target of an assignment / placement-new?"""
    cur = i
    for a in fn.ancestors(i):
        st = fn.s(a)
        if st["k"] in ("ParenExpr", "ImplicitCastExpr") and st.get("ck") != "LValueToRValue":
            cur = a
            continue
        if st["k"] in ("BinaryOperator", "CompoundAssignOperator") and st["op"].endswith("=") \
                and st["op"] not in ("==", "!=", "<=", ">=") and st["c"][0] == cur:
            return True
        if st["k"] == "UnaryOperator" and st["op"] == "&":
            p = fn.parent(a)
            while p is not None and fn.s(p)["k"] in ("ImplicitCastExpr", "ParenExpr", "CStyleCastExpr", "CXXStaticCastExpr"):
                p = fn.parent(p)
            if p is not None and fn.s(p)["k"] == "CXXNewExpr":
                return True
            return False
        return False
    return False


def possible_tags_at(fn, i, tags, prog, sw=None):
    """Tags this->type_ can have when statement i executes: switch-case
    reachability intersected with the dominating guards that depend on type_
    only.  None = no constraint recognised."""
    pb = fn.block_of(i)
    if pb is None:
        return None
    possible = None
    for head, reach_tags in (sw if sw is not None else switch_constraints(fn, tags)):
        if pb[0] in reach_tags:
            ts = reach_tags[pb[0]]
            possible = set(ts) if possible is None else possible & ts
    for cond, pol in fn.guards_of(i):
        vals = {n: truth(fn, cond, v, prog) for n, v in tags.items()}
        if any(x is None for x in vals.values()):
            continue
        ts = {n for n, x in vals.items() if x == pol}
        possible = set(ts) if possible is None else possible & ts
    return possible


def run(ctx, prog, rule="R-TAG"):
    tags = tag_table(prog)
    if not tags:
        ctx.brk(rule, "enum VariantType not found")
        return
    unknown_tags = set(tags) - set(PERMITTED)
    if unknown_tags:
        ctx.brk(rule, "VariantType has tags without a permitted-member row: %s" % sorted(unknown_tags))
        return
    n_access = 0
    for fn in sorted(prog.fns.values(), key=lambda f: f.key):
        accesses = []
        for i in fn.walk():
            st = fn.s(i)
            if st["k"] == "MemberExpr" and st.get("field") and \
                    (st.get("rec") or "").split("::")[-1] in ("VariantContent", "VariantExtension"):
                accesses.append(i)
        if not accesses:
            continue
        sw = switch_constraints(fn, tags)
        asg = assigned_tags(fn, tags)
        for i in accesses:
            st = fn.s(i)
            member = st["m"]
            n_access += 1
            pb = fn.block_of(i)
            possible = None
            basis = []
            if pb is not None:
                for head, reach_tags in sw:
                    if pb[0] in reach_tags:
                        ts = reach_tags[pb[0]]
                        possible = set(ts) if possible is None else possible & ts
                        basis.append("switch(type_) cases {%s}" % ",".join(sorted(ts)))
                for cond, pol in fn.guards_of(i):
                    vals = {}
                    for n, v in tags.items():
                        vals[n] = truth(fn, cond, v, prog)
                    if any(x is None for x in vals.values()):
                        continue
                    ts = {n for n, x in vals.items() if x == pol}
                    possible = set(ts) if possible is None else possible & ts
                    basis.append("%s%s" % ("" if pol else "!", fn.text(cond)))
            wr = is_write(fn, i)
            # a tag assignment that dominates the access overrides every
            # guard evaluated before it (e.g. the debug-build assertion
            # `type_ == Null` at the top of the setters)
            if asg and any(fn.stmt_dominates(j, i) for j, _ in asg):
                possible = None
                basis = []
            if possible is None and asg:
                # the tag this function assigns on the path of the access:
                # the closest assignment that dominates it, else (writes
                # only) the closest one it dominates
                doms = [(j, t) for j, t in asg if fn.stmt_dominates(j, i)]
                pick = None
                if doms:
                    pick = doms[0]
                    for j, t in doms[1:]:
                        if fn.stmt_dominates(pick[0], j):
                            pick = (j, t)
                elif wr:
                    subs = [(j, t) for j, t in asg if fn.stmt_dominates(i, j)]
                    if subs:
                        pick = subs[0]
                        for j, t in subs[1:]:
                            if fn.stmt_dominates(j, pick[0]):
                                pick = (j, t)
                if pick is not None and pick[1] is not None:
                    possible = set(pick[1]) if isinstance(pick[1], frozenset) else {pick[1]}
                    basis.append("type_ = %s assigned on the same path" % (sorted(pick[1]) if isinstance(pick[1], frozenset) else pick[1]))
            inst = "%s: %s %s" % (fn.short, "write" if wr else "read", member)
            if possible is None:
                ctx.ob(rule, inst, None, fn.loc(i),
                       "no tag constraint found for this access (no switch case, guard or tag assignment recognised)")
                continue
            bad = []
            for t in sorted(possible):
                if member in PERMITTED[t]:
                    continue
                if (fn.short, t, member) in EXCEPTIONS:
                    continue
                bad.append(t)
            ctx.ob(rule, inst, not bad, fn.loc(i),
                   ("member %s is read while the tag can be %s (permitted: %s); basis: %s" %
                    (member, "/".join(bad), ",".join(sorted(set().union(*[PERMITTED[t] for t in bad]) or {"none"})), "; ".join(basis)))
                   if bad else "tags {%s} all permit %s; basis: %s" % (",".join(sorted(possible)), member, "; ".join(basis)),
                   nontrivial=True)
        # writers: each setter assigns a tag whose permitted set contains the
        # member it writes (covered above) — and every tag assignment is a constant
        for j, t in asg:
            if t is None:
                r = fn.s(fn.strip(fn.s(j)["c"][1], casts=True))
                # type_ = src.type_ style copies are fine only in copy/move helpers
                ctx.ob(rule, "%s: assigns a constant tag" % fn.short, None, fn.loc(j),
                       "type_ is assigned a non-constant value: %s" % fn.text(j))
    ctx.floor(rule, "union member accesses", n_access, 60)
