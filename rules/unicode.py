"""C17 — \\uXXXX escapes decode to UTF-8 for every code point (arithmetic
clauses, decided for ALL code units / pairs by partitioned affine abstract
interpretation, lib/pieces.py).

R-HEX     decodeHex(c), for every value of its parameter type: a digit of
          [0-9], [A-F], [a-f] yields its value; every other character yields
          a value above 15 (which is what parseHex4 rejects).
R-UTF8    Utf8::encodeCodepoint(cp, sink), for every cp in [0, 0x10FFFF]
          outside the surrogate block: the bytes appended equal the UTF-8
          encoding of cp; no cell of the scratch buffer is read before it
          was written, no access leaves the buffer.
R-UESCAPE the \\u branch of JsonDeserializer::parseQuotedString, interpreted
          from the point where parseHex4 delivered the code unit cu, with the
          state of Utf16::Codepoint symbolic:
            fresh state, cu a BMP scalar      -> appends UTF-8(cu)
            fresh state, cu a high surrogate  -> appends nothing, remembers cu & 0x3FF
            after high surrogate h, cu a low surrogate l
                                              -> appends UTF-8(0x10000 + (h << 10 | l & 0x3FF))
            any other order (unpaired)        -> no out-of-bounds / uninitialised access
The reference encoding is evaluated in the same abstract domain and compared
as affine forms on every box; a mismatch names a concrete code point.
"""
from lib import pieces
from lib import prog as P
from lib.pieces import Aff

HEXCLASSES = [(48, 57, 48), (65, 70, 55), (97, 102, 87)]


def force_splits(box, sym, cuts):
    lo, hi = box[sym]
    for c in cuts:
        if lo < c <= hi:
            raise pieces.Split(sym, c)


def utf8_spec(dom, cp):
    one = Aff.const
    if dom.compare(cp, "<", one(0x80)):
        return [cp]
    last = dom.or_const(dom.and_const(cp, 0x3F), 0x80)
    if dom.compare(cp, "<", one(0x800)):
        return [dom.or_const(dom.shr(cp, 6), 0xC0), last]
    mid = dom.or_const(dom.and_const(dom.shr(cp, 6), 0x3F), 0x80)
    if dom.compare(cp, "<", one(0x10000)):
        return [dom.or_const(dom.shr(cp, 12), 0xE0), mid, last]
    mid2 = dom.or_const(dom.and_const(dom.shr(cp, 12), 0x3F), 0x80)
    return [dom.or_const(dom.shr(cp, 18), 0xF0), mid2, mid, last]


def same_bytes(a, b):
    if len(a) != len(b):
        return False
    for x, y in zip(a, b):
        if x.t != y.t or (x.c - y.c) % 256:
            return False
    return True


def corner(box):
    return {s: lo for s, (lo, hi) in box.items()}


def fmt_bytes(vals, point):
    return " ".join("%02X" % (v.at(point) % 256) for v in vals) or "(nothing)"


def r_hex(ctx, prog, rule="R-HEX"):
    fns = sorted(prog.q("JsonDeserializer::decodeHex"), key=lambda f: f.key)
    if not fns and not prog.q("JsonDeserializer::parseHex4"):
        # ARDUINOJSON_DECODE_UNICODE=0: \u escapes are kept as text, the hex decoder is not instantiated
        ctx.count(rule + ":skipped_decode_unicode_off", 1)
        return
    ctx.floor(rule, "decodeHex", len(fns), 1)
    for fn in fns[:1]:
        tk = fn.params[0].get("tk", "s8")
        dom0 = pieces.type_range(tk)
        cuts = [48, 58, 65, 71, 97, 103]
        bad = []
        npieces = 0

        def body(box):
            force_splits(box, "c", cuts)
            m = pieces.Machine(prog, box)
            m.fields = {}
            fr = pieces.Machine.Frame(fn)
            fr.env[fn.params[0]["d"]] = Aff.sym("c")
            return m.run_fn(fr)
        try:
            for box, res in pieces.cover({"c": dom0}, body):
                npieces += 1
                lo, hi = box["c"]
                cls = [k for k in HEXCLASSES if k[0] <= lo and hi <= k[1]]
                if not isinstance(res, Aff):
                    bad.append((lo, "no value returned"))
                    continue
                if cls:
                    want = Aff({"c": 1}, -cls[0][2])
                    if res != want:
                        bad.append((lo, "decodeHex(%r) = %d, expected %d" % (chr(lo), res.at({"c": lo}), lo - cls[0][2])))
                else:
                    rl, rh = res.rng(box)
                    if rl <= 15:
                        # which character
                        x = lo
                        for x in range(lo, hi + 1):
                            if res.at({"c": x}) <= 15:
                                break
                        bad.append((x, "decodeHex(%r) = %d: a character that is not a hexadecimal digit is accepted as one "
                                    "(\"\\u004%s\" decodes instead of being InvalidInput)" % (chr(x % 256), res.at({"c": x}), chr(x % 256))))
        except (pieces.Unsupported, pieces.Hazard) as ex:
            ctx.ob(rule, "decodeHex maps exactly the hexadecimal digits", None, fn.where, str(ex))
            return
        ok = not bad
        ctx.ob(rule, "decodeHex maps exactly the hexadecimal digits", ok, fn.where,
               "%d pieces cover %s [%d, %d]: digits map to their value, everything else to a value above 15" % (npieces, tk, dom0[0], dom0[1]) if ok else
               "; ".join(m for _, m in sorted(bad)[:3]))
        ctx.count(rule + ":pieces", npieces)
    ctx.doc(rule, "decodeHex evaluated piecewise over its whole parameter type")


def r_utf8(ctx, prog, rule="R-UTF8"):
    fns = [f for f in sorted(prog.q("Utf8::encodeCodepoint"), key=lambda f: f.key)]
    if not fns:
        ctx.count(rule + ":skipped_no_encoder", 1)
        return
    fn = fns[0]
    cpd = fn.params[0]["d"]
    sinkd = fn.params[1]["d"]
    bad = []
    hazards = []
    npieces = 0

    def body(box):
        force_splits(box, "cp", [0xD800, 0xE000])
        m = pieces.Machine(prog, box)
        m.fields = {}
        fr = pieces.Machine.Frame(fn)
        fr.env[cpd] = Aff.sym("cp")
        fr.env[sinkd] = pieces.SINK
        try:
            m.run_fn(fr)
        except pieces.Hazard as h:
            return ("hazard", str(h), None)
        spec = utf8_spec(m.dom, Aff.sym("cp"))
        return ("ok", m.out, spec)
    try:
        for box, (tag, out, spec) in pieces.cover({"cp": (0, 0x10FFFF)}, body):
            npieces += 1
            lo, hi = box["cp"]
            if tag == "hazard":
                hazards.append((lo, out))
                continue
            if 0xD800 <= lo <= 0xDFFF:
                continue
            if not same_bytes(out, spec):
                # first differing point: the affine forms differ, find a corner
                pt = {"cp": lo}
                if fmt_bytes(out, pt) == fmt_bytes(spec, pt):
                    pt = {"cp": hi}
                bad.append((pt["cp"], "U+%04X is encoded as %s, UTF-8 is %s" % (pt["cp"], fmt_bytes(out, pt), fmt_bytes(spec, pt))))
    except pieces.Unsupported as ex:
        ctx.ob(rule, "encodeCodepoint appends the UTF-8 encoding of every scalar value", None, fn.where, str(ex))
        return
    ok = not bad and not hazards
    ctx.ob(rule, "encodeCodepoint appends the UTF-8 encoding of every scalar value", ok, fn.where,
           "%d boxes cover [0, 0x10FFFF]; on each the appended bytes equal the reference encoding as affine forms" % npieces if ok else
           "; ".join([m for _, m in sorted(bad)[:2]] + ["from U+%04X: %s" % h for h in sorted(hazards)[:2]]))
    ctx.count(rule + ":boxes", npieces)
    ctx.doc(rule, "UTF-8 encoder evaluated piecewise over all code points")


def r_uescape(ctx, prog, rule="R-UESCAPE"):
    fns = [f for f in sorted(prog.q("JsonDeserializer::parseQuotedString"), key=lambda f: f.key)]
    ctx.floor(rule, "parseQuotedString", len(fns), 1)
    fn = fns[0]
    reach = prog.reachable([fn.key])
    if not any(f_.key in reach for f_ in prog.q("Utf8::encodeCodepoint")):
        ctx.count(rule + ":skipped_decode_unicode_off", 1)
        return
    # the `if (c == 'u')` branch
    branch = None
    for i in fn.walk():
        st = fn.s(i)
        if st["k"] == "IfStmt":
            c = fn.s(fn.strip(st["cond"], casts=True))
            if c["k"] == "BinaryOperator" and c["op"] == "==" and fn.const(c["c"][1]) == ord("u"):
                branch = st.get("then")
    cpdecl = errdecl = None
    for i in fn.walk():
        st = fn.s(i)
        if st["k"] == "DeclStmt":
            for d in st["decls"]:
                if (d.get("tr") or "").endswith("Codepoint"):
                    cpdecl = d
                if d["n"] == "err":
                    errdecl = d
    if branch is None or cpdecl is None:
        ctx.ob(rule, "\\u branch of parseQuotedString", None, fn.where, "branch `c == 'u'` or the Utf16::Codepoint local not found")
        return

    def hook_hex(m, fr, i, st):
        a = fr.fn.s(fr.fn.strip(st["args"][0], casts=True))
        fr.env[a["ref"]["d"]] = Aff.sym("cu")
        return Aff.const(0)

    def hook_none(m, fr, i, st):
        return None

    def run_case(box, hs):
        m = pieces.Machine(prog, box, hooks={"parseHex4": hook_hex, "move": hook_none})
        m.fields = {("fld", "jd", "stringBuilder_"): pieces.SINK,
                    ("fld", "cp0", "highSurrogate_"): hs, ("fld", "cp0", "codepoint_"): Aff.const(0)}
        fr = pieces.Machine.Frame(fn, this="jd")
        fr.env[cpdecl["d"]] = pieces.Obj("cp0")
        if errdecl is not None:
            fr.env[errdecl["d"]] = Aff.const(0)
        ret = None
        try:
            m.stmt(fr, branch)
        except pieces._Continue:
            pass
        except pieces._Return as r:
            ret = r.v
        except pieces.Hazard as h:
            return ("hazard", str(h), None, None, m)
        return ("ok", m.out, ret, m.fields.get(("fld", "cp0", "highSurrogate_")), m)

    cases = []
    # A: fresh state
    bad = []
    nb = 0
    try:
        def body_a(box):
            force_splits(box, "cu", [0xD800, 0xDC00, 0xE000])
            tag, out, ret, hs, m = run_case(box, Aff.const(0))
            if tag == "hazard":
                return (tag, out, None, None)
            lo = box["cu"][0]
            spec = utf8_spec(m.dom, Aff.sym("cu")) if not (0xD800 <= lo <= 0xDFFF) else None
            want_hs = m.dom.and_const(Aff.sym("cu"), 0x3FF) if 0xD800 <= lo <= 0xDBFF else None
            return (tag, out, (spec, want_hs, ret), hs)
        for box, (tag, out, extra, hs) in pieces.cover({"cu": (0, 0xFFFF)}, body_a):
            nb += 1
            lo, hi = box["cu"]
            if tag == "hazard":
                bad.append((lo, "\\u%04X: %s" % (lo, out)))
                continue
            spec, want_hs, ret = extra
            if ret is not None:
                bad.append((lo, "\\u%04X makes the routine return %r instead of continuing" % (lo, ret)))
            elif spec is not None and not same_bytes(out, spec):
                pt = {"cu": lo}
                if fmt_bytes(out, pt) == fmt_bytes(spec, pt):
                    pt = {"cu": hi}
                bad.append((pt["cu"], "\\u%04X appends %s, UTF-8 is %s" % (pt["cu"], fmt_bytes(out, pt), fmt_bytes(spec, pt))))
            elif want_hs is not None and (out or hs != want_hs):
                bad.append((lo, "high surrogate \\u%04X: appends %s and remembers %r (expected nothing and cu & 0x3FF)" %
                            (lo, fmt_bytes(out, {"cu": lo}), hs)))
    except pieces.Unsupported as ex:
        ctx.ob(rule, "single \\uXXXX escapes", None, fn.where, str(ex))
        return
    ctx.ob(rule, "every BMP scalar \\uXXXX appends its UTF-8 encoding; a high surrogate is remembered", not bad, fn.where,
           "%d boxes cover the 65536 code units" % nb if not bad else "; ".join(m for _, m in sorted(bad)[:3]))
    ctx.count(rule + ":boxes_single", nb)
    # B: pairs
    bad = []
    nb = 0
    try:
        def body_b(box):
            tag, out, ret, hs, m = run_case(box, Aff.sym("h"))
            if tag == "hazard":
                return (tag, out, None)
            cp = Aff({"h": 1024, "cu": 1}, 0x10000 - 0xDC00)
            return (tag, out, (utf8_spec(m.dom, cp), ret))
        for box, (tag, out, extra) in pieces.cover({"h": (0, 0x3FF), "cu": (0xDC00, 0xDFFF)}, body_b):
            nb += 1
            pt = corner(box)
            if tag == "hazard":
                bad.append(((pt["h"], pt["cu"]), "pair \\u%04X\\u%04X: %s" % (0xD800 + pt["h"], pt["cu"], out)))
                continue
            spec, ret = extra
            if ret is not None or not same_bytes(out, spec):
                for cand in (pt, {s: hi for s, (lo, hi) in box.items()}, {"h": box["h"][1], "cu": box["cu"][0]}, {"h": box["h"][0], "cu": box["cu"][1]}):
                    if fmt_bytes(out, cand) != fmt_bytes(spec, cand):
                        pt = cand
                        break
                bad.append(((pt["h"], pt["cu"]), "pair \\u%04X\\u%04X (U+%X) appends %s, UTF-8 is %s" %
                            (0xD800 + pt["h"], pt["cu"], 0x10000 + 1024 * pt["h"] + pt["cu"] - 0xDC00, fmt_bytes(out, pt), fmt_bytes(spec, pt))))
    except pieces.Unsupported as ex:
        ctx.ob(rule, "surrogate pairs", None, fn.where, str(ex))
        return
    ctx.ob(rule, "every high/low surrogate pair appends the UTF-8 encoding of its code point", not bad, fn.where,
           "%d boxes cover the 1024 x 1024 pairs" % nb if not bad else "; ".join(m for _, m in sorted(bad)[:3]))
    ctx.count(rule + ":boxes_pairs", nb)
    ctx.doc(rule, "the \\u branch interpreted piecewise for all code units and all surrogate pairs")


_MEMO = {}


def _sig(prog, names):
    """Content signature of the routines involved: the verdict depends on
    nothing else, so configurations that share them share the work."""
    import hashlib
    import json
    h = hashlib.sha256()
    for nmq in names:
        fs = sorted(prog.q(nmq), key=lambda f: f.key)
        if fs:
            f = fs[0]
            ids = {}

            def canon(o):
                if isinstance(o, dict):
                    return {k_: (ids.setdefault(v_, len(ids)) if k_ == "d" and isinstance(v_, int) else canon(v_)) for k_, v_ in o.items()}
                if isinstance(o, list):
                    return [canon(x) for x in o]
                return o
            h.update(json.dumps(canon([f.d.get("stmts"), f.d.get("params"), f.d.get("inits")]), sort_keys=True).encode())
    return h.hexdigest()


class _Rec(object):
    """records the obligations of one run so that they can be replayed"""

    def __init__(self):
        self.calls = []

    def __getattr__(self, name):
        def f(*a, **kw):
            self.calls.append((name, a, kw))
        return f


def _memo(ctx, prog, key, names, fnc):
    k = (key, _sig(prog, names))
    if k not in _MEMO:
        rec = _Rec()
        fnc(rec, prog)
        _MEMO[k] = rec.calls
    for name, a, kw in _MEMO[k]:
        getattr(ctx, name)(*a, **kw)


def run(ctx, prog, only_hex=False):
    _memo(ctx, prog, "hex", ["JsonDeserializer::decodeHex", "JsonDeserializer::isBetween"], r_hex)
    if only_hex:
        return
    _memo(ctx, prog, "utf8", ["Utf8::encodeCodepoint"], r_utf8)
    extra = []
    for f_ in sorted(prog.q("JsonDeserializer::parseQuotedString"), key=lambda f: f.key)[:1]:
        for k_ in sorted(prog.reachable([f_.key])):
            g_ = prog.fns.get(k_)
            if g_ is not None and g_.cls.endswith("JsonDeserializer") and g_.name not in ("current", "move", "parseQuotedString"):
                extra.append("JsonDeserializer::" + g_.name)
    _memo(ctx, prog, "uesc", sorted(set(extra)) + ["JsonDeserializer::parseQuotedString", "Utf8::encodeCodepoint", "Utf16::Codepoint::append",
                              "Utf16::Codepoint::value", "Utf16::isHighSurrogate", "Utf16::isLowSurrogate", "Utf16::Codepoint::Codepoint"], r_uescape)
