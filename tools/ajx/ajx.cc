// ajx — fact extractor for the ArduinoJson static checks (engine E1).
//
// A libTooling tool. For every function *definition* that is fully
// instantiated (no dependent context) and whose body is spelled in a file
// under one of the --src prefixes, it writes:
//   * the statement tree with resolved callees (never names matched on text),
//     member accesses with their parent record, cast kinds with source/target
//     types, integer/enum constants folded by clang's constant evaluator;
//   * the clang::CFG built with setAllAlwaysAdd() (every sub-expression is an
//     element, in evaluation order), implicit destructors, terminator
//     conditions, ordered successors and switch labels.
// Also: every record with its fields (mutable flag), every variable with
// static storage duration (also inside uninstantiated templates), every
// enumeration with its values.
//
// The rules themselves live in /verif/rules (Python) and work on this dump.
// One JSON document per translation unit on stdout / -o file.

#include "clang/AST/ASTConsumer.h"
#include "clang/AST/ASTContext.h"
#include "clang/AST/DeclCXX.h"
#include "clang/AST/DeclTemplate.h"
#include "clang/AST/Expr.h"
#include "clang/AST/ExprCXX.h"
#include "clang/AST/RecursiveASTVisitor.h"
#include "clang/Analysis/CFG.h"
#include "clang/Frontend/CompilerInstance.h"
#include "clang/Frontend/FrontendAction.h"
#include "clang/Tooling/CommonOptionsParser.h"
#include "clang/Tooling/Tooling.h"
#include "llvm/Support/CommandLine.h"
#include "llvm/Support/JSON.h"
#include "llvm/Support/raw_ostream.h"

#include <map>
#include <set>
#include <string>
#include <vector>

using namespace clang;
using namespace clang::tooling;
namespace json = llvm::json;

static llvm::cl::OptionCategory Cat("ajx options");
static llvm::cl::list<std::string> SrcPrefix(
    "src", llvm::cl::desc("source prefix whose functions are dumped"),
    llvm::cl::cat(Cat));
static llvm::cl::opt<std::string> OutFile("o", llvm::cl::desc("output file"),
                                          llvm::cl::init("-"),
                                          llvm::cl::cat(Cat));

namespace {

struct Dumper {
  ASTContext& Ctx;
  PrintingPolicy PP;
  SourceManager& SM;
  std::map<const Decl*, int> DeclIds;

  explicit Dumper(ASTContext& C)
      : Ctx(C), PP(C.getLangOpts()), SM(C.getSourceManager()) {
    PP.SuppressInlineNamespace = true;
    PP.SuppressTagKeyword = true;
    PP.Bool = true;
    PP.SuppressUnwrittenScope = true;
    PP.SuppressDefaultTemplateArgs = true;
  }

  int declId(const Decl* D) {
    auto It = DeclIds.find(D);
    if (It != DeclIds.end())
      return It->second;
    int Id = (int)DeclIds.size() + 1;
    DeclIds[D] = Id;
    return Id;
  }

  std::string fileOf(SourceLocation L) {
    if (L.isInvalid())
      return "";
    L = SM.getExpansionLoc(L);
    PresumedLoc P = SM.getPresumedLoc(L);
    if (P.isInvalid())
      return "";
    return P.getFilename();
  }
  unsigned lineOf(SourceLocation L) {
    if (L.isInvalid())
      return 0;
    return SM.getExpansionLineNumber(L);
  }

  bool inSrc(SourceLocation L) {
    std::string F = fileOf(L);
    if (F.empty())
      return false;
    for (auto& P : SrcPrefix)
      if (F.compare(0, P.size(), P) == 0)
        return true;
    return false;
  }

  std::string typeStr(QualType T) {
    if (T.isNull())
      return "";
    return T.getAsString(PP);
  }
  std::string canonStr(QualType T) {
    if (T.isNull())
      return "";
    return T.getCanonicalType().getAsString(PP);
  }

  // Qualified name without any template argument and without inline
  // namespaces: ArduinoJson::detail::VariantData::asFloat
  std::string bareName(const NamedDecl* ND) {
    std::vector<std::string> Parts;
    if (ND->getDeclName())
      Parts.push_back(ND->getDeclName().getAsString());
    else
      Parts.push_back("(anon)");
    for (const DeclContext* DC = ND->getDeclContext(); DC;
         DC = DC->getParent()) {
      if (auto* NS = dyn_cast<NamespaceDecl>(DC)) {
        if (NS->isInline() || NS->isAnonymousNamespace())
          continue;
        Parts.push_back(NS->getNameAsString());
      } else if (auto* RD = dyn_cast<RecordDecl>(DC)) {
        Parts.push_back(RD->getDeclName() ? RD->getNameAsString() : "(anon)");
      } else if (auto* FD = dyn_cast<FunctionDecl>(DC)) {
        Parts.push_back(FD->getDeclName().getAsString());
      } else if (auto* ED = dyn_cast<EnumDecl>(DC)) {
        if (ED->isScoped())
          Parts.push_back(ED->getNameAsString());
      }
    }
    std::string R;
    for (auto It = Parts.rbegin(); It != Parts.rend(); ++It) {
      if (!R.empty())
        R += "::";
      R += *It;
    }
    return R;
  }

  std::string fullName(const FunctionDecl* FD) {
    std::string S;
    llvm::raw_string_ostream OS(S);
    FD->getNameForDiagnostic(OS, PP, true);
    OS.flush();
    return S;
  }

  std::string fkey(const FunctionDecl* FD) {
    std::string S = fullName(FD);
    S += "(";
    bool First = true;
    for (auto* P : FD->parameters()) {
      if (!First)
        S += ", ";
      First = false;
      S += canonStr(P->getType());
    }
    S += ")";
    if (auto* MD = dyn_cast<CXXMethodDecl>(FD))
      if (MD->isConst())
        S += " const";
    return S;
  }

  // compact type kind: s32 u8 f64 bool ptr ref rec enum other
  std::string typeKind(QualType T) {
    if (T.isNull())
      return "";
    T = T.getCanonicalType();
    if (T->isReferenceType())
      T = T->getPointeeType().getCanonicalType();
    if (T->isBooleanType())
      return "bool";
    if (T->isEnumeralType()) {
      return "enum";
    }
    if (T->isIntegerType()) {
      unsigned W = (unsigned)Ctx.getIntWidth(T);
      return std::string(T->isSignedIntegerType() ? "s" : "u") +
             std::to_string(W);
    }
    if (T->isRealFloatingType())
      return "f" + std::to_string((unsigned)Ctx.getTypeSize(T));
    if (T->isPointerType())
      return "ptr";
    if (T->isRecordType())
      return "rec";
    if (T->isArrayType())
      return "arr";
    if (T->isVoidType())
      return "void";
    return "other";
  }

  // record behind pointers/references/arrays, bare name
  std::string recordOf(QualType T) {
    if (T.isNull())
      return "";
    T = T.getCanonicalType();
    for (int I = 0; I < 4; ++I) {
      if (T->isReferenceType() || T->isPointerType())
        T = T->getPointeeType().getCanonicalType();
      else if (T->isArrayType())
        T = QualType(T->getArrayElementTypeNoTypeQual(), 0).getCanonicalType();
      else
        break;
    }
    if (auto* RD = T->getAsCXXRecordDecl())
      return bareName(RD);
    return "";
  }

  json::Object calleeInfo(const FunctionDecl* FD) {
    json::Object O;
    O["q"] = bareName(FD);
    O["key"] = fkey(FD);
    const FunctionDecl* Def = nullptr;
    SourceLocation L = FD->getLocation();
    if (FD->hasBody(Def) && Def)
      L = Def->getLocation();
    else if (auto* Pat = FD->getTemplateInstantiationPattern())
      L = Pat->getLocation();
    O["file"] = fileOf(L);
    O["line"] = (int64_t)lineOf(L);
    if (auto* MD = dyn_cast<CXXMethodDecl>(FD)) {
      if (MD->isVirtual())
        O["virt"] = true;
      if (MD->isStatic())
        O["static"] = true;
      if (MD->isConst())
        O["const"] = true;
      O["cls"] = bareName(MD->getParent());
    }
    O["np"] = (int64_t)FD->getNumParams();
    return O;
  }

  // ---------------------------------------------------------------- stmts
  struct FnCtx {
    std::map<const Stmt*, int> Ids;
    json::Array Stmts;
  };

  int dumpStmt(const Stmt* S, FnCtx& F) {
    if (!S)
      return -1;
    auto It = F.Ids.find(S);
    if (It != F.Ids.end())
      return It->second;
    int Id = (int)F.Ids.size();
    F.Ids[S] = Id;
    // reserve the slot so that ids equal indices
    F.Stmts.push_back(nullptr);

    json::Object O;
    O["i"] = Id;
    O["k"] = S->getStmtClassName();
    O["l"] = (int64_t)lineOf(S->getBeginLoc());

    json::Array Ch;
    for (const Stmt* C : S->children())
      Ch.push_back(dumpStmt(C, F));

    if (auto* E = dyn_cast<Expr>(S)) {
      O["t"] = typeStr(E->getType());
      O["tk"] = typeKind(E->getType());
      std::string R = recordOf(E->getType());
      if (!R.empty())
        O["tr"] = R;
      if (E->isLValue())
        O["lv"] = true;
      if (!E->isValueDependent() && !E->isTypeDependent() &&
          (E->getType()->isIntegralOrEnumerationType()) && E->isPRValue()) {
        Expr::EvalResult ER;
        if (E->EvaluateAsInt(ER, Ctx)) {
          llvm::APSInt V = ER.Val.getInt();
          llvm::SmallString<40> Str;
          V.toString(Str, 10);
          O["cv"] = std::string(Str.str());
        }
      }
    }

    if (auto* DRE = dyn_cast<DeclRefExpr>(S)) {
      const ValueDecl* D = DRE->getDecl();
      json::Object R;
      R["n"] = D->getNameAsString();
      R["d"] = declId(D->getCanonicalDecl());
      if (isa<ParmVarDecl>(D))
        R["k"] = "parm";
      else if (auto* VD = dyn_cast<VarDecl>(D)) {
        R["k"] = VD->hasGlobalStorage() ? "global" : "local";
        if (VD->hasGlobalStorage())
          R["q"] = bareName(VD);
      } else if (auto* FD = dyn_cast<FunctionDecl>(D)) {
        R["k"] = "func";
        R["q"] = bareName(FD);
        R["key"] = fkey(FD);
      } else if (isa<EnumConstantDecl>(D)) {
        R["k"] = "enumerator";
        R["q"] = bareName(D);
      } else if (isa<FieldDecl>(D)) {
        R["k"] = "field";
      } else
        R["k"] = "other";
      O["ref"] = std::move(R);
    } else if (auto* ME = dyn_cast<MemberExpr>(S)) {
      const ValueDecl* MD = ME->getMemberDecl();
      O["m"] = MD->getNameAsString();
      if (auto* RD = dyn_cast<RecordDecl>(MD->getDeclContext()))
        O["rec"] = bareName(RD);
      O["arrow"] = ME->isArrow();
      if (isa<FieldDecl>(MD))
        O["field"] = true;
      O["d"] = declId(MD->getCanonicalDecl());
    } else if (auto* CE = dyn_cast<CallExpr>(S)) {
      if (const FunctionDecl* FD = CE->getDirectCallee())
        O["callee"] = calleeInfo(FD);
      json::Array Args;
      for (const Expr* A : CE->arguments())
        Args.push_back(dumpStmt(A, F));
      O["args"] = std::move(Args);
      if (auto* MCE = dyn_cast<CXXMemberCallExpr>(S)) {
        if (const Expr* Obj = MCE->getImplicitObjectArgument())
          O["obj"] = dumpStmt(Obj, F);
      }
    } else if (auto* CCE = dyn_cast<CXXConstructExpr>(S)) {
      O["callee"] = calleeInfo(CCE->getConstructor());
      json::Array Args;
      for (const Expr* A : CCE->arguments())
        Args.push_back(dumpStmt(A, F));
      O["args"] = std::move(Args);
    } else if (auto* NE = dyn_cast<CXXNewExpr>(S)) {
      if (const FunctionDecl* FD = NE->getOperatorNew())
        O["callee"] = calleeInfo(FD);
      O["placement"] = (int64_t)NE->getNumPlacementArgs();
      O["alloct"] = typeStr(NE->getAllocatedType());
    } else if (auto* DE = dyn_cast<CXXDeleteExpr>(S)) {
      if (const FunctionDecl* FD = DE->getOperatorDelete())
        O["callee"] = calleeInfo(FD);
    } else if (auto* CastE = dyn_cast<CastExpr>(S)) {
      O["ck"] = CastE->getCastKindName();
      O["from"] = typeStr(CastE->getSubExpr()->getType());
      O["fromk"] = typeKind(CastE->getSubExpr()->getType());
      if (auto* EC = dyn_cast<ExplicitCastExpr>(S))
        O["written"] = typeStr(EC->getTypeAsWritten());
    } else if (auto* BO = dyn_cast<BinaryOperator>(S)) {
      O["op"] = BO->getOpcodeStr().str();
    } else if (auto* UO = dyn_cast<UnaryOperator>(S)) {
      O["op"] = UnaryOperator::getOpcodeStr(UO->getOpcode()).str();
      if (UO->isPostfix())
        O["postfix"] = true;
    } else if (auto* IL = dyn_cast<IntegerLiteral>(S)) {
      llvm::SmallString<40> Str;
      IL->getValue().toString(Str, 10, false);
      O["v"] = std::string(Str.str());
    } else if (auto* CL = dyn_cast<CharacterLiteral>(S)) {
      O["v"] = (int64_t)CL->getValue();
    } else if (auto* BL = dyn_cast<CXXBoolLiteralExpr>(S)) {
      O["v"] = BL->getValue();
    } else if (auto* FL = dyn_cast<FloatingLiteral>(S)) {
      llvm::SmallString<40> Str;
      FL->getValue().toString(Str);
      O["v"] = std::string(Str.str());
    } else if (auto* SL = dyn_cast<StringLiteral>(S)) {
      if (SL->getCharByteWidth() == 1) {
        // bytes as integers: literals may contain NUL and non-UTF8
        json::Array B;
        for (unsigned char C : SL->getBytes())
          B.push_back((int64_t)C);
        O["bytes"] = std::move(B);
      }
    } else if (auto* DS = dyn_cast<DeclStmt>(S)) {
      json::Array Ds;
      for (const Decl* D : DS->decls()) {
        if (auto* VD = dyn_cast<VarDecl>(D)) {
          json::Object V;
          V["n"] = VD->getNameAsString();
          V["d"] = declId(VD->getCanonicalDecl());
          V["t"] = typeStr(VD->getType());
          V["tk"] = typeKind(VD->getType());
          std::string R = recordOf(VD->getType());
          if (!R.empty())
            V["tr"] = R;
          if (VD->isStaticLocal())
            V["static"] = true;
          if (auto* AT = Ctx.getAsConstantArrayType(VD->getType()))
            V["extent"] = (int64_t)AT->getSize().getZExtValue();
          if (VD->getType()->isVariableArrayType())
            V["vla"] = true;
          if (VD->hasInit())
            V["init"] = dumpStmt(VD->getInit(), F);
          Ds.push_back(std::move(V));
        }
      }
      O["decls"] = std::move(Ds);
    } else if (auto* CS = dyn_cast<CaseStmt>(S)) {
      const Expr* L = CS->getLHS();
      Expr::EvalResult ER;
      if (L && !L->isValueDependent() && L->EvaluateAsInt(ER, Ctx)) {
        llvm::SmallString<40> Str;
        ER.Val.getInt().toString(Str, 10);
        O["lo"] = std::string(Str.str());
      }
      if (const Expr* Rr = CS->getRHS()) {
        Expr::EvalResult ER2;
        if (!Rr->isValueDependent() && Rr->EvaluateAsInt(ER2, Ctx)) {
          llvm::SmallString<40> Str;
          ER2.Val.getInt().toString(Str, 10);
          O["hi"] = std::string(Str.str());
        }
      }
      O["sub"] = dumpStmt(CS->getSubStmt(), F);
    } else if (auto* DfS = dyn_cast<DefaultStmt>(S)) {
      O["sub"] = dumpStmt(DfS->getSubStmt(), F);
    } else if (auto* IS = dyn_cast<IfStmt>(S)) {
      O["cond"] = dumpStmt(IS->getCond(), F);
      O["then"] = dumpStmt(IS->getThen(), F);
      if (IS->getElse())
        O["else"] = dumpStmt(IS->getElse(), F);
      if (IS->isConstexpr())
        O["constexpr"] = true;
    } else if (auto* WS = dyn_cast<WhileStmt>(S)) {
      O["cond"] = dumpStmt(WS->getCond(), F);
      O["body"] = dumpStmt(WS->getBody(), F);
    } else if (auto* FS = dyn_cast<ForStmt>(S)) {
      if (FS->getInit())
        O["init"] = dumpStmt(FS->getInit(), F);
      if (FS->getCond())
        O["cond"] = dumpStmt(FS->getCond(), F);
      if (FS->getInc())
        O["inc"] = dumpStmt(FS->getInc(), F);
      O["body"] = dumpStmt(FS->getBody(), F);
    } else if (auto* DoS = dyn_cast<DoStmt>(S)) {
      O["cond"] = dumpStmt(DoS->getCond(), F);
      O["body"] = dumpStmt(DoS->getBody(), F);
    } else if (auto* SS = dyn_cast<SwitchStmt>(S)) {
      O["cond"] = dumpStmt(SS->getCond(), F);
      O["body"] = dumpStmt(SS->getBody(), F);
    } else if (auto* UETT = dyn_cast<UnaryExprOrTypeTraitExpr>(S)) {
      O["trait"] = (int64_t)UETT->getKind();
      if (UETT->isArgumentType())
        O["argt"] = typeStr(UETT->getArgumentType());
    } else if (auto* ILE = dyn_cast<InitListExpr>(S)) {
      O["ninit"] = (int64_t)ILE->getNumInits();
    } else if (isa<GCCAsmStmt>(S) || isa<MSAsmStmt>(S)) {
      O["asm"] = true;
    }

    O["c"] = std::move(Ch);
    F.Stmts[Id] = std::move(O);
    return Id;
  }

  // ---------------------------------------------------------------- CFG
  json::Value dumpCFG(const FunctionDecl* FD, FnCtx& F) {
    CFG::BuildOptions BO;
    BO.setAllAlwaysAdd();
    BO.AddImplicitDtors = true;
    BO.AddInitializers = true;
    BO.PruneTriviallyFalseEdges = false;
    std::unique_ptr<CFG> G =
        CFG::buildCFG(FD, FD->getBody(), &Ctx, BO);
    if (!G)
      return nullptr;
    json::Object O;
    O["entry"] = (int64_t)G->getEntry().getBlockID();
    O["exit"] = (int64_t)G->getExit().getBlockID();
    json::Array Blocks;
    for (const CFGBlock* B : *G) {
      json::Object JB;
      JB["id"] = (int64_t)B->getBlockID();
      json::Array El;
      for (const CFGElement& E : *B) {
        if (auto CS = E.getAs<CFGStmt>()) {
          auto It = F.Ids.find(CS->getStmt());
          if (It != F.Ids.end())
            El.push_back(It->second);
          else
            El.push_back(dumpStmt(CS->getStmt(), F));
        } else if (auto CI = E.getAs<CFGInitializer>()) {
          json::Object I;
          const CXXCtorInitializer* Init = CI->getInitializer();
          I["init"] = Init->isAnyMemberInitializer()
                          ? Init->getAnyMember()->getNameAsString()
                          : std::string("(base)");
          I["e"] = dumpStmt(Init->getInit(), F);
          El.push_back(std::move(I));
        } else if (auto CD = E.getAs<CFGImplicitDtor>()) {
          json::Object I;
          if (const CXXDestructorDecl* DD = CD->getDestructorDecl(Ctx)) {
            I["dtor"] = calleeInfo(DD);
          } else
            I["dtor"] = nullptr;
          if (auto AD = E.getAs<CFGAutomaticObjDtor>())
            I["var"] = declId(AD->getVarDecl()->getCanonicalDecl());
          El.push_back(std::move(I));
        }
      }
      JB["el"] = std::move(El);
      if (const Stmt* T = B->getTerminatorStmt()) {
        JB["term"] = dumpStmt(T, F);
        JB["termk"] = T->getStmtClassName();
      }
      if (const Stmt* C = B->getTerminatorCondition())
        JB["cond"] = dumpStmt(C, F);
      if (const Stmt* L = B->getLabel())
        JB["label"] = dumpStmt(L, F);
      json::Array Succ;
      for (auto SI = B->succ_begin(); SI != B->succ_end(); ++SI) {
        const CFGBlock* S = SI->getReachableBlock();
        if (!S)
          S = SI->getPossiblyUnreachableBlock();
        Succ.push_back(S ? (int64_t)S->getBlockID() : (int64_t)-1);
      }
      JB["succ"] = std::move(Succ);
      if (B->hasNoReturnElement())
        JB["noreturn"] = true;
      Blocks.push_back(std::move(JB));
    }
    O["blocks"] = std::move(Blocks);
    return std::move(O);
  }

  // ---------------------------------------------------------------- top
  json::Array Functions, Records, Globals, Enums;
  std::set<const Decl*> Seen;
  std::set<std::string> SeenKeys;

  void function(const FunctionDecl* FD) {
    if (!FD->doesThisDeclarationHaveABody())
      return;
    if (FD->isDependentContext())
      return;
    if (!inSrc(FD->getLocation()))
      return;
    if (!Seen.insert(FD->getCanonicalDecl()).second)
      return;
    std::string Key = fkey(FD);
    if (!SeenKeys.insert(Key).second)
      return;
    FnCtx F;
    json::Object O;
    O["key"] = Key;
    O["q"] = bareName(FD);
    O["name"] = FD->getDeclName().getAsString();
    O["file"] = fileOf(FD->getLocation());
    O["line"] = (int64_t)lineOf(FD->getLocation());
    O["ret"] = typeStr(FD->getReturnType());
    O["retc"] = canonStr(FD->getReturnType());
    O["retk"] = typeKind(FD->getReturnType());
    if (FD->isTemplateInstantiation())
      O["inst"] = true;
    if (FD->isImplicit() || FD->isDefaulted())
      O["implicit"] = true;
    if (auto* MD = dyn_cast<CXXMethodDecl>(FD)) {
      O["cls"] = bareName(MD->getParent());
      std::string S;
      llvm::raw_string_ostream OS(S);
      MD->getParent()->getNameForDiagnostic(OS, PP, true);
      OS.flush();
      O["clsfull"] = S;
      if (MD->isConst())
        O["const"] = true;
      if (MD->isStatic())
        O["static"] = true;
      if (MD->isVirtual())
        O["virt"] = true;
      O["access"] = (int64_t)MD->getAccess();
      if (isa<CXXConstructorDecl>(MD))
        O["ctor"] = true;
      if (isa<CXXDestructorDecl>(MD))
        O["dtor"] = true;
    }
    // template arguments of the function itself
    if (const TemplateArgumentList* TAL =
            FD->getTemplateSpecializationArgs()) {
      json::Array TA;
      for (const TemplateArgument& A : TAL->asArray()) {
        std::string S;
        llvm::raw_string_ostream OS(S);
        A.print(PP, OS, true);
        OS.flush();
        TA.push_back(S);
      }
      O["targs"] = std::move(TA);
    }
    // template arguments of the enclosing class specialisation
    if (auto* MD = dyn_cast<CXXMethodDecl>(FD)) {
      if (auto* CTS =
              dyn_cast<ClassTemplateSpecializationDecl>(MD->getParent())) {
        json::Array TA;
        for (const TemplateArgument& A : CTS->getTemplateArgs().asArray()) {
          std::string S;
          llvm::raw_string_ostream OS(S);
          A.print(PP, OS, true);
          OS.flush();
          TA.push_back(S);
        }
        O["ctargs"] = std::move(TA);
      }
    }
    json::Array Ps;
    for (auto* P : FD->parameters()) {
      json::Object JP;
      JP["n"] = P->getNameAsString();
      JP["d"] = declId(P->getCanonicalDecl());
      JP["t"] = typeStr(P->getType());
      JP["tk"] = typeKind(P->getType());
      std::string R = recordOf(P->getType());
      if (!R.empty())
        JP["tr"] = R;
      if (P->hasDefaultArg() && !P->hasUninstantiatedDefaultArg() &&
          !P->hasUnparsedDefaultArg())
        JP["def"] = dumpStmt(P->getDefaultArg(), F);
      Ps.push_back(std::move(JP));
    }
    O["params"] = std::move(Ps);
    if (auto* CD = dyn_cast<CXXConstructorDecl>(FD)) {
      json::Array Inits;
      for (const CXXCtorInitializer* I : CD->inits()) {
        json::Object JI;
        JI["m"] = I->isAnyMemberInitializer()
                      ? I->getAnyMember()->getNameAsString()
                      : std::string("(base)");
        JI["written"] = I->isWritten();
        JI["e"] = dumpStmt(I->getInit(), F);
        Inits.push_back(std::move(JI));
      }
      O["inits"] = std::move(Inits);
    }
    O["bfile"] = fileOf(FD->getBody()->getBeginLoc());
    O["body"] = dumpStmt(FD->getBody(), F);
    O["cfg"] = dumpCFG(FD, F);
    O["stmts"] = std::move(F.Stmts);
    Functions.push_back(std::move(O));
  }

  void record(const CXXRecordDecl* RD) {
    if (!RD->isThisDeclarationADefinition())
      return;
    if (!inSrc(RD->getLocation()))
      return;
    if (!Seen.insert(RD).second)
      return;
    json::Object O;
    O["q"] = bareName(RD);
    {
      std::string S;
      llvm::raw_string_ostream OS(S);
      RD->getNameForDiagnostic(OS, PP, true);
      OS.flush();
      O["full"] = S;
    }
    O["file"] = fileOf(RD->getLocation());
    O["line"] = (int64_t)lineOf(RD->getLocation());
    O["dependent"] = RD->isDependentContext();
    O["union"] = RD->isUnion();
    json::Array Fs;
    for (const FieldDecl* FDc : RD->fields()) {
      json::Object JF;
      JF["n"] = FDc->getNameAsString();
      JF["t"] = typeStr(FDc->getType());
      JF["tk"] = typeKind(FDc->getType());
      std::string R = recordOf(FDc->getType());
      if (!R.empty())
        JF["tr"] = R;
      if (FDc->isMutable())
        JF["mutable"] = true;
      if (!RD->isDependentContext() && !FDc->getType()->isDependentType() &&
          !FDc->getType()->isIncompleteType())
        JF["size"] = (int64_t)Ctx.getTypeSizeInChars(FDc->getType())
                         .getQuantity();
      JF["line"] = (int64_t)lineOf(FDc->getLocation());
      Fs.push_back(std::move(JF));
    }
    O["fields"] = std::move(Fs);
    json::Array Bs;
    if (!RD->isDependentContext())
      for (const CXXBaseSpecifier& B : RD->bases())
        Bs.push_back(typeStr(B.getType()));
    O["bases"] = std::move(Bs);
    json::Array Ms;
    for (const Decl* D : RD->decls()) {
      if (auto* MD = dyn_cast<CXXMethodDecl>(D)) {
        json::Object JM;
        JM["n"] = MD->getNameAsString();
        JM["const"] = MD->isConst();
        JM["static"] = MD->isStatic();
        JM["line"] = (int64_t)lineOf(MD->getLocation());
        Ms.push_back(std::move(JM));
      }
    }
    O["methods"] = std::move(Ms);
    Records.push_back(std::move(O));
  }

  void global(const VarDecl* VD) {
    if (!VD->hasGlobalStorage())
      return;
    if (!inSrc(VD->getLocation()))
      return;
    if (isa<ParmVarDecl>(VD))
      return;
    json::Object O;
    O["q"] = bareName(VD);
    {
      // where the declaration's tokens were written (differs from the
      // expansion location for declarations produced by a macro)
      SourceLocation SL = SM.getSpellingLoc(VD->getBeginLoc());
      PresumedLoc PL = SM.getPresumedLoc(SL);
      O["spelling"] = PL.isValid() ? std::string(PL.getFilename()) : std::string();
    }
    O["t"] = typeStr(VD->getType());
    O["file"] = fileOf(VD->getLocation());
    O["line"] = (int64_t)lineOf(VD->getLocation());
    O["def"] = VD->isThisDeclarationADefinition() != VarDecl::DeclarationOnly;
    O["dependent"] = VD->getDeclContext()->isDependentContext() ||
                     VD->getType()->isDependentType();
    QualType T = VD->getType();
    bool IsConst = false;
    if (!T->isDependentType()) {
      QualType ET = T;
      while (const ArrayType* AT = Ctx.getAsArrayType(ET))
        ET = AT->getElementType();
      IsConst = ET.isConstQualified();
    } else
      IsConst = T.isConstQualified();
    O["const"] = IsConst;
    O["constexpr"] = VD->isConstexpr();
    O["staticlocal"] = VD->isStaticLocal();
    O["staticmember"] = VD->isStaticDataMember();
    O["tls"] = VD->getTLSKind() != VarDecl::TLS_None;
    O["hasinit"] = VD->hasInit();
    if (!O["dependent"].getAsBoolean().getValueOr(true) && VD->hasInit() &&
        VD->isThisDeclarationADefinition() != VarDecl::DeclarationOnly) {
      O["constinit"] = VD->getInit()->isConstantInitializer(Ctx, false);
    }
    // has mutable fields / is of class type with non-trivial state
    if (const CXXRecordDecl* RD = T->getAsCXXRecordDecl()) {
      if (RD->hasDefinition()) {
        O["rec"] = bareName(RD);
        O["rec_empty"] = RD->isEmpty();
        O["rec_hasmutable"] = RD->hasMutableFields();
        int NF = 0;
        for (auto* Fd : RD->fields()) {
          (void)Fd;
          ++NF;
        }
        O["rec_nfields"] = NF;
      }
    }
    if (auto* AT = Ctx.getAsConstantArrayType(T))
      O["extent"] = (int64_t)AT->getSize().getZExtValue();
    // integer initialisers of arrays (the power-of-ten tables)
    if (VD->hasInit() && !VD->getInit()->isValueDependent()) {
      const Expr* I = VD->getInit()->IgnoreParenImpCasts();
      if (auto* ILE = dyn_cast<InitListExpr>(I)) {
        json::Array Vals;
        bool Ok = true;
        for (const Expr* E : ILE->inits()) {
          Expr::EvalResult ER;
          if (E->getType()->isIntegralOrEnumerationType() &&
              E->EvaluateAsInt(ER, Ctx)) {
            llvm::SmallString<40> Str;
            ER.Val.getInt().toString(Str, 10);
            Vals.push_back(std::string(Str.str()));
          } else {
            Ok = false;
            break;
          }
        }
        if (Ok)
          O["values"] = std::move(Vals);
      } else if (I->getType()->isIntegralOrEnumerationType()) {
        Expr::EvalResult ER;
        if (I->EvaluateAsInt(ER, Ctx)) {
          llvm::SmallString<40> Str;
          ER.Val.getInt().toString(Str, 10);
          O["value"] = std::string(Str.str());
        }
      }
    }
    // enclosing function / class for reporting
    if (auto* FD = dyn_cast<FunctionDecl>(VD->getDeclContext()))
      O["in"] = bareName(FD);
    else if (auto* RD = dyn_cast<RecordDecl>(VD->getDeclContext()))
      O["in"] = bareName(RD);
    Globals.push_back(std::move(O));
  }

  void enumeration(const EnumDecl* ED) {
    if (!ED->isThisDeclarationADefinition())
      return;
    if (!inSrc(ED->getLocation()))
      return;
    if (!Seen.insert(ED).second)
      return;
    json::Object O;
    O["q"] = bareName(ED);
    O["file"] = fileOf(ED->getLocation());
    O["line"] = (int64_t)lineOf(ED->getLocation());
    if (auto* RD = dyn_cast<RecordDecl>(ED->getDeclContext()))
      O["in"] = bareName(RD);
    json::Array Cs;
    for (const EnumConstantDecl* C : ED->enumerators()) {
      json::Object JC;
      JC["n"] = C->getNameAsString();
      llvm::SmallString<40> Str;
      C->getInitVal().toString(Str, 10);
      JC["v"] = std::string(Str.str());
      Cs.push_back(std::move(JC));
    }
    O["consts"] = std::move(Cs);
    if (!ED->isDependentType() && ED->getIntegerType().getTypePtrOrNull())
      O["bits"] = (int64_t)Ctx.getIntWidth(ED->getIntegerType());
    Enums.push_back(std::move(O));
  }
};

class Visitor : public RecursiveASTVisitor<Visitor> {
 public:
  explicit Visitor(Dumper& D) : D(D) {}
  bool shouldVisitTemplateInstantiations() const { return true; }
  bool shouldVisitImplicitCode() const { return false; }
  bool VisitFunctionDecl(FunctionDecl* FD) {
    D.function(FD);
    return true;
  }
  bool VisitCXXRecordDecl(CXXRecordDecl* RD) {
    D.record(RD);
    return true;
  }
  bool VisitVarDecl(VarDecl* VD) {
    D.global(VD);
    return true;
  }
  bool VisitEnumDecl(EnumDecl* ED) {
    D.enumeration(ED);
    return true;
  }

 private:
  Dumper& D;
};

class Consumer : public ASTConsumer {
 public:
  void HandleTranslationUnit(ASTContext& Ctx) override {
    if (Ctx.getDiagnostics().hasErrorOccurred()) {
      llvm::errs() << "ajx: compile errors, no dump\n";
      return;
    }
    Dumper D(Ctx);
    Visitor V(D);
    V.TraverseDecl(Ctx.getTranslationUnitDecl());
    json::Object Root;
    Root["functions"] = std::move(D.Functions);
    Root["records"] = std::move(D.Records);
    Root["globals"] = std::move(D.Globals);
    Root["enums"] = std::move(D.Enums);
    std::error_code EC;
    if (OutFile == "-") {
      llvm::outs() << json::Value(std::move(Root)) << "\n";
    } else {
      llvm::raw_fd_ostream OS(OutFile, EC);
      if (EC) {
        llvm::errs() << "ajx: cannot write " << OutFile << "\n";
        return;
      }
      OS << json::Value(std::move(Root)) << "\n";
    }
  }
};

class Action : public ASTFrontendAction {
 public:
  std::unique_ptr<ASTConsumer> CreateASTConsumer(CompilerInstance&,
                                                 StringRef) override {
    return std::make_unique<Consumer>();
  }
};

}  // namespace

int main(int argc, const char** argv) {
  auto Exp = CommonOptionsParser::create(argc, argv, Cat);
  if (!Exp) {
    llvm::errs() << Exp.takeError();
    return 2;
  }
  CommonOptionsParser& OP = Exp.get();
  if (SrcPrefix.empty())
    SrcPrefix.push_back("/repo/src/");
  ClangTool Tool(OP.getCompilations(), OP.getSourcePathList());
  int R = Tool.run(newFrontendActionFactory<Action>().get());
  return R ? 2 : 0;
}
